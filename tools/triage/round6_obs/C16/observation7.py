# Observation 7 (unmodified tree): Operation.get_split_inputs_axis() resolves an inferred size (-1) of SPLIT_V *in place*
# in the size_splits constant ('sizes = size_tens.values; sizes[idx] = ...'). If the same constant is shared with a
# SPLIT_V that stays on the CPU (here: int32 tensors), the CPU operator is written with the sizes of the NPU operator:
# [1, -1] becomes [1, 3] although its own input has 6 channels (should resolve to [1, 5]) -> the CPU operator is changed
# (and is now invalid).
import os, sys
sys.path.insert(0, os.getcwd()); sys.path.insert(0, os.path.join(os.getcwd(), "out"))
from obs_common import *  # noqa

from ethosu.vela import tflite_reader
import contextlib, io
a = fm("a", (1, 8, 8, 4), I8)
b = fm("b", (1, 8, 8, 6), I32)
axt = const("axis", (), I32, 3, quant=False)
szt = const("sizes", (2,), I32, [1, -1], quant=False)
o1 = [fm("p0", (1, 8, 8, 1), I8), fm("p1", (1, 8, 8, 3), I8)]
o2 = [fm("q0", (1, 8, 8, 1), I32), fm("q1", (1, 8, 8, 5), I32)]
op1 = mkop(Op.SplitV, "sv1", [a, szt, axt], o1, dict(num_splits=2))
op2 = mkop(Op.SplitV, "sv2", [b, szt, axt], o2, dict(num_splits=2))
buf = build([op1, op2], [a, b], o1 + o2)
sys.stdout.flush(); saved = os.dup(1); dn = os.open(os.devnull, os.O_WRONLY); os.dup2(dn, 1)
try:
    res, _ = compile_(buf, quiet=False)
finally:
    sys.stdout.flush(); os.dup2(saved, 1)
def sizes_of_cpu_splitv(data):
    with contextlib.redirect_stdout(io.StringIO()):
        nng = tflite_reader.read_tflite(bytearray(data), 1, {}, [], [])
    return [(op.name, op.inputs[1].values.tolist()) for op in nng.subgraphs[0].get_all_ops() if op.type == Op.SplitV]
print("input  file, SPLIT_V size_splits:", sizes_of_cpu_splitv(buf))
print("output file, SPLIT_V size_splits (CPU operator 'q0' only):", sizes_of_cpu_splitv(res))

# Observation 11 (unmodified tree): places where the text of the generated report and the enforced check disagree
# (no crash; the operator is silently placed differently from what the report says)
#  (a) TRANSPOSE rank 2: report 'When ifm rank is 2: WxC -> CxW'; constraint_transpose accepts ANY rank-2 permutation,
#      the identity [0, 1] included, and fixup_transpose lowers it as a real W<->C swap.
#  (b) CONV_2D stride w = 5 or 7 with an IFM width that is a multiple of it: report requires 'stride w must be divisible
#      by 2 or 3'; calc_resize_factor accepts it (resize factor = stride) -> accelerated.
#  (c) FULLY_CONNECTED with a 2-D bias [1, 8]: violates 'Optional Bias tensor must be of shape: 1D', but the reader has
#      already flattened the bias clone (clone_and_reshape_tensor(.., None, ..)) -> the check can never fail, accelerated.
#  (d) MEAN with negative axes [-3, -2] (= H, W): nothing in the listed MEAN constraints forbids them, yet
#      constraint_mean_axis returns 'Axis parameter is out of bounds' -> CPU.
#  (e) SOFTMAX beta = 0: 'Beta value needs to be positive' is enforced as beta >= 0 -> accelerated.
#  (f) SHAPE of a float32 tensor: violates 'Tensors must be of type: int16, int32, int8, uint8' but is constant-folded
#      before the supported-operator check (convert_shape_op_to_constant_tensor) -> not left on the CPU.
import os, sys
sys.path.insert(0, os.getcwd()); sys.path.insert(0, os.path.join(os.getcwd(), "out"))
from obs_common import *  # noqa

print("(a)", try_compile(transpose(s=(8, 4), perm=(0, 1))))
print("(b) stride 5, width 10:", try_compile(conv(ifm_shape=(1, 8, 10, 4), stride=(1, 5), pad=Padding.VALID, k=(1, 1))))
print("(b) stride 7, width 14:", try_compile(conv(ifm_shape=(1, 8, 14, 4), stride=(1, 7), pad=Padding.VALID, k=(1, 1))))
print("(c)", try_compile(fc(bias_shape=(1, 8))))
print("(d)", try_compile(mean(s=(1, 8, 8, 4), axis=(-3, -2))), " vs axes [1, 2]:", try_compile(mean(s=(1, 8, 8, 4), axis=(1, 2))))
print("(e)", try_compile(softmax(beta=0.0)))
a = Tensor([1, 8, 8, 4], DataType.float32, "a"); o = fm("ofm", (4,), I32, quant=False)
print("(f)", try_compile(([mkop(Op.Shape, "shape", [a], o, dict(out_type=I32))], [a], [o])))

# Observation 4 (unmodified tree): RESIZE_NEAREST_NEIGHBOR, align_corners=True, OFM-1 = 2x/4x (IFM-1), depth > 1
# satisfies all documented constraints (constraint_resize accepts it) but convert_resizenn_ac_to_depthwise_conv()
# builds upscale*upscale weight values and reshapes them to [upscale, upscale, depth, depth] -> ValueError, the
# compilation aborts. With depth 1 the same operator is accelerated.
import os, sys
sys.path.insert(0, os.getcwd()); sys.path.insert(0, os.path.join(os.getcwd(), "out"))
from obs_common import *  # noqa

print("4x4x4 -> 7x7x4   ->", try_compile(resize(Op.ResizeNearestNeighbor, s=(1, 4, 4, 4), ohw=(7, 7), ac=True)))
print("4x4x4 -> 13x13x4 ->", try_compile(resize(Op.ResizeNearestNeighbor, s=(1, 4, 4, 4), ohw=(13, 13), ac=True)))
print("4x4x1 -> 7x7x1   ->", try_compile(resize(Op.ResizeNearestNeighbor, s=(1, 4, 4, 1), ohw=(7, 7), ac=True)))

# helpers shared by the observation<n>.py reproducers (build small .tflite models with Vela's own classes, compile them
# with ethosu.vela.vela.main and list the operators of the result)
import contextlib
import io
import os
import sys
import tempfile

sys.path.insert(0, os.getcwd())
import numpy as np

from ethosu.vela import vela
from ethosu.vela.data_type import DataType
from ethosu.vela.nn_graph import Graph, Pass, PassPlacement, Subgraph
from ethosu.vela.operation import NpuBlockType, Op, Operation, Padding
from ethosu.vela.tensor import QuantizationParameters, Tensor, create_const_tensor
from ethosu.vela.tflite import Model
from ethosu.vela.tflite_mapping import builtin_operator_name_map
from ethosu.vela.tflite_writer import write_tflite_buffer

NP = {DataType.int8: np.int8, DataType.uint8: np.uint8, DataType.int16: np.int16, DataType.int32: np.int32,
      DataType.int64: np.int64}


def qp(scale=0.5, zp=0):
    q = QuantizationParameters()
    q.scale_f32 = np.float32(scale)
    q.zero_point = zp
    return q


def fm(name, shape, dtype=DataType.int8, scale=0.5, zp=0, quant=True):
    t = Tensor(list(shape), dtype, name)
    if quant:
        t.quantization = qp(scale, zp)
    return t


def const(name, shape, dtype, values, scale=0.5, zp=0, quant=True):
    values = np.array(values, dtype=NP[dtype]).reshape(shape)
    t = create_const_tensor(name, list(shape), dtype, values, quantization=qp(scale, zp) if quant else None)
    if not quant:
        t.quantization = None
    return t


def mkop(op_type, name, inputs, outputs, attrs=None):
    op = Operation(op_type, name)
    op.run_on_npu = False
    for t in inputs:
        if t is None:
            op.inputs.append(None)
        else:
            op.add_input_tensor(t)
    if not isinstance(outputs, (list, tuple)):
        outputs = [outputs]
    for t in outputs:
        t.ops = [op]
        op.outputs.append(t)
    op.attrs = dict(attrs or {})
    return op


def build(ops, inputs, outputs):
    """ops in execution order; inputs/outputs: lists of tensors. returns tflite bytes"""
    nng = Graph("m")
    sg = Subgraph("main", PassPlacement.Cpu)
    ps = Pass("main", PassPlacement.Cpu, False, NpuBlockType.Default)
    for t in inputs:
        ph = Operation(Op.Placeholder, t.name + "_ph")
        ph.set_output_tensor(t)
        ps.ops.append(ph)
    for i, op in enumerate(ops):
        op.op_index = i
        ps.ops.append(op)
    sg.passes = [ps]
    sg.input_tensors = list(inputs)
    sg.original_inputs = list(inputs)
    sg.output_tensors = list(outputs)
    nng.subgraphs.append(sg)
    return bytes(write_tflite_buffer(nng))


def list_ops(buf):
    """returns list of (name, [input tensor names], [output names]) for subgraph 0 of a tflite flatbuffer"""
    m = Model.Model.GetRootAsModel(bytearray(buf), 0)
    sg = m.Subgraphs(0)
    res = []
    for i in range(sg.OperatorsLength()):
        o = sg.Operators(i)
        oc = m.OperatorCodes(o.OpcodeIndex())
        code = max(oc.BuiltinCode(), oc.DeprecatedBuiltinCode())
        nm = builtin_operator_name_map[code]
        if oc.CustomCode() is not None:
            nm = "CUSTOM:" + oc.CustomCode().decode()
        res.append(nm)
    return res


def compile_(buf, accel="ethos-u55-128", extra=(), quiet=True):
    with tempfile.TemporaryDirectory() as d:
        p = os.path.join(d, "m.tflite")
        with open(p, "wb") as f:
            f.write(buf)
        out = io.StringIO()
        cm = contextlib.redirect_stdout(out) if quiet else contextlib.nullcontext()
        with cm:
            rc = vela.main([p, "--output-dir", d, "--accelerator-config", accel, *extra])
        if rc != 0:
            return None, out.getvalue()
        with open(os.path.join(d, "m_vela.tflite"), "rb") as f:
            res = f.read()
    return res, out.getvalue()


def run(ops, inputs, outputs, accel="ethos-u55-128", show=False):
    buf = build(ops, inputs, outputs)
    before = list_ops(buf)
    try:
        res, log = compile_(buf, accel)
    except Exception as e:  # noqa
        import traceback
        return before, "EXC " + repr(e) + traceback.format_exc()[-600:], ""
    if res is None:
        return before, None, log
    if show:
        print(log)
    return before, list_ops(res), log


I8, U8, I16, I32, I64 = DataType.int8, DataType.uint8, DataType.int16, DataType.int32, DataType.int64
F32 = DataType.float32


def conv(ifm_shape=(1, 8, 8, 4), k=(3, 3), oc=8, stride=(1, 1), dil=(1, 1), pad=Padding.SAME, dtype=I8, wdtype=None,
         faf=None, wzp=0, bias_dtype=I32, bias_vals=None, ofm_shape=None, wvals=None, per_axis=False, bias=True,
         wc=None, ofm_dtype=None):
    ifm = fm("ifm", ifm_shape, dtype)
    kh, kw = k
    if ofm_shape is None:
        if pad == Padding.SAME:
            oh = -(-ifm_shape[1] // stride[0])
            ow = -(-ifm_shape[2] // stride[1])
        else:
            oh = (ifm_shape[1] - ((kh - 1) * dil[0] + 1)) // stride[0] + 1
            ow = (ifm_shape[2] - ((kw - 1) * dil[1] + 1)) // stride[1] + 1
        ofm_shape = (ifm_shape[0], oh, ow, oc)
    ofm = fm("ofm", ofm_shape, ofm_dtype or dtype)
    wdtype = wdtype or (U8 if dtype == U8 else I8)
    wc = wc or ifm_shape[3]
    wshape = (oc, kh, kw, wc)
    w = const("w", wshape, wdtype, np.ones(wshape) if wvals is None else wvals, scale=0.01, zp=wzp)
    if per_axis:
        w.quantization.scale_f32 = np.full(oc, 0.01, np.float32)
        w.quantization.zero_point = np.zeros(oc, np.int64)
        w.quantization.quant_dim = 0
    ins = [ifm, w]
    if bias:
        b = const("b", (oc,), bias_dtype, np.zeros(oc) if bias_vals is None else bias_vals, scale=0.005)
        ins.append(b)
    op = mkop(Op.Conv2DBias, "conv", ins, ofm,
              dict(padding=pad, stride_w=stride[1], stride_h=stride[0], dilation_w_factor=dil[1],
                   dilation_h_factor=dil[0], fused_activation_function=faf))
    return [op], [ifm], [ofm]


def dwconv(ifm_shape=(1, 8, 8, 4), k=(3, 3), dm=1, stride=(1, 1), dil=(1, 1), pad=Padding.SAME, dtype=I8, faf=None,
           dm_attr=None):
    ifm = fm("ifm", ifm_shape, dtype)
    kh, kw = k
    oc = ifm_shape[3] * dm
    if pad == Padding.SAME:
        oh = -(-ifm_shape[1] // stride[0])
        ow = -(-ifm_shape[2] // stride[1])
    else:
        oh = (ifm_shape[1] - ((kh - 1) * dil[0] + 1)) // stride[0] + 1
        ow = (ifm_shape[2] - ((kw - 1) * dil[1] + 1)) // stride[1] + 1
    ofm = fm("ofm", (1, oh, ow, oc), dtype)
    wshape = (1, kh, kw, oc)
    w = const("w", wshape, U8 if dtype == U8 else I8, np.ones(wshape), scale=0.01)
    b = const("b", (oc,), I32, np.zeros(oc), scale=0.005)
    op = mkop(Op.DepthwiseConv2DBias, "dw", [ifm, w, b], ofm,
              dict(padding=pad, stride_w=stride[1], stride_h=stride[0], dilation_w_factor=dil[1],
                   dilation_h_factor=dil[0], fused_activation_function=faf,
                   depth_multiplier=dm if dm_attr is None else dm_attr))
    return [op], [ifm], [ofm]


def tconv(ifm_shape=(1, 4, 4, 4), k=(3, 3), oc=8, stride=(2, 2), pad=Padding.SAME, dtype=I8, ofm_hw=None, bias=True):
    ifm = fm("ifm", ifm_shape, dtype)
    kh, kw = k
    if ofm_hw is None:
        if pad == Padding.SAME:
            ofm_hw = (ifm_shape[1] * stride[0], ifm_shape[2] * stride[1])
        else:
            ofm_hw = (ifm_shape[1] * stride[0] + max(kh - stride[0], 0), ifm_shape[2] * stride[1] + max(kw - stride[1], 0))
    oshape = (1, ofm_hw[0], ofm_hw[1], oc)
    ofm = fm("ofm", oshape, dtype)
    wshape = (oc, kh, kw, ifm_shape[3])
    w = const("w", wshape, U8 if dtype == U8 else I8, np.ones(wshape), scale=0.01)
    osh = const("oshape", (4,), I32, list(oshape), quant=False)
    ins = [osh, w, ifm]
    if bias:
        ins.append(const("b", (oc,), I32, np.zeros(oc), scale=0.005))
    op = mkop(Op.Conv2DBackpropInput, "tconv", ins, ofm, dict(padding=pad, stride_w=stride[1], stride_h=stride[0]))
    return [op], [ifm], [ofm]


def pool(kind=Op.AvgPool, ifm_shape=(1, 8, 8, 4), k=(2, 2), stride=(2, 2), pad=Padding.VALID, dtype=I8, faf=None,
         ofm_dtype=None, ofm_scale=0.5):
    ifm = fm("ifm", ifm_shape, dtype)
    kh, kw = k
    if pad == Padding.SAME:
        oh = -(-ifm_shape[1] // stride[0])
        ow = -(-ifm_shape[2] // stride[1])
    else:
        oh = (ifm_shape[1] - kh) // stride[0] + 1
        ow = (ifm_shape[2] - kw) // stride[1] + 1
    ofm = fm("ofm", (ifm_shape[0], oh, ow, ifm_shape[3]), ofm_dtype or dtype, scale=ofm_scale)
    op = mkop(kind, "pool", [ifm], ofm, dict(padding=pad, stride_w=stride[1], stride_h=stride[0], filter_width=kw,
                                             filter_height=kh, fused_activation_function=faf))
    return [op], [ifm], [ofm]


def fc(ifm_shape=(1, 16), oc=8, dtype=I8, wdtype=None, bias=True, bias_dtype=I32, keep=False, ofm_shape=None,
       bias_shape=None, faf=None, wconst=True):
    ifm = fm("ifm", ifm_shape, dtype)
    ofm = fm("ofm", ofm_shape or (ifm_shape[0], oc), dtype)
    wshape = (oc, ifm_shape[-1])
    if wconst:
        w = const("w", wshape, wdtype or (U8 if dtype == U8 else I8), np.ones(wshape), scale=0.01)
    else:
        w = fm("w", wshape, wdtype or I8, scale=0.01)
    ins = [ifm, w]
    if bias:
        bs = bias_shape or (oc,)
        ins.append(const("b", bs, bias_dtype, np.zeros(bs), scale=0.005))
    op = mkop(Op.FullyConnected, "fc", ins, ofm, dict(fused_activation_function=faf, weights_format=0,
                                                      keep_num_dims=keep, asymmetric_quantize_inputs=False))
    inputs = [ifm] + ([] if wconst else [w])
    return [op], inputs, [ofm]


def binary(kind=Op.Add, s1=(1, 8, 8, 4), s2=(1, 8, 8, 4), so=None, dtype=I8, d2=None, do=None, faf=None, const2=False,
           sc1=0.5, sc2=0.5, sco=0.5, zp1=0, zp2=0, zpo=0, attrs=None, noquant=False):
    a = fm("a", s1, dtype, scale=sc1, zp=zp1, quant=not noquant)
    d2 = d2 or dtype
    if const2:
        b = const("bb", s2, d2, np.ones(s2 if len(s2) else ()), scale=sc2, zp=zp2, quant=not noquant)
    else:
        b = fm("bb", s2, d2, scale=sc2, zp=zp2, quant=not noquant)
    if so is None:
        so = tuple(np.broadcast_shapes(tuple(s1), tuple(s2)))
    o = fm("ofm", so, do or dtype, scale=sco, zp=zpo, quant=not noquant)
    at = {}
    if kind in (Op.Add, Op.Sub, Op.Mul):
        at = dict(fused_activation_function=faf)
        if kind != Op.Mul:
            at["pot_scale_int16"] = False
    if attrs:
        at.update(attrs)
    op = mkop(kind, "bin", [a, b], o, at)
    return [op], [a] + ([] if const2 else [b]), [o]


def unary(kind=Op.Relu, s=(1, 8, 8, 4), dtype=I8, do=None, so=None, attrs=None, sci=0.5, sco=0.5, zpi=0, zpo=0):
    a = fm("a", s, dtype, scale=sci, zp=zpi)
    o = fm("ofm", so or s, do or dtype, scale=sco, zp=zpo)
    op = mkop(kind, "un", [a], o, attrs or {})
    return [op], [a], [o]


def mean(s=(1, 8, 8, 4), axis=(1, 2), keep=True, dtype=I8, axis_scalar=False, so=None):
    a = fm("a", s, dtype)
    ax = sorted(set(x % len(s) for x in axis))
    if so is None:
        so = [1 if i in ax else d for i, d in enumerate(s)] if keep else [d for i, d in enumerate(s) if i not in ax]
    o = fm("ofm", so, dtype)
    if axis_scalar:
        axt = const("axis", (), I32, axis[0], quant=False)
    else:
        axt = const("axis", (len(axis),), I32, list(axis), quant=False)
    op = mkop(Op.Mean, "mean", [a, axt], o, dict(keep_dims=keep))
    return [op], [a], [o]


def pad(s=(1, 8, 8, 4), pads=((0, 0), (1, 1), (1, 1), (0, 0)), dtype=I8, pdtype=I32, so=None, zp=0):
    a = fm("a", s, dtype, zp=zp)
    pads = np.array(pads)
    if so is None:
        off = len(s) - len(pads)
        so = list(s)
        for i, (l, r) in enumerate(pads):
            so[i + off] += l + r
    o = fm("ofm", so, dtype, zp=zp)
    pt = const("pads", pads.shape, pdtype, pads, quant=False)
    op = mkop(Op.Pad, "pad", [a, pt], o, {})
    return [op], [a], [o]


def reshape(s=(1, 8, 8, 4), so=(1, 16, 4, 4), dtype=I8, kind=Op.Reshape, shape_tensor=True, sco=0.5, dyn_shape=False):
    a = fm("a", s, dtype)
    o = fm("ofm", so, dtype, scale=sco)
    ins = [a]
    inputs = [a]
    attrs = {}
    if kind == Op.Reshape:
        attrs = dict(new_shape=list(so))
        if shape_tensor:
            if dyn_shape:
                st = fm("shape", (len(so),), I32, quant=False)
                inputs.append(st)
            else:
                st = const("shape", (len(so),), I32, list(so), quant=False)
            ins.append(st)
    elif kind == Op.Squeeze:
        attrs = dict(squeeze_dims=[])
    elif kind == Op.ExpandDims:
        ins.append(const("dim", (), I32, 0, quant=False))
    op = mkop(kind, "rs", ins, o, attrs)
    return [op], inputs, [o]


def concat(shapes=((1, 8, 8, 4), (1, 8, 8, 4)), axis=3, dtype=I8, so=None, faf=None, scales=None):
    ts = [fm(f"in{i}", s, dtype, scale=(scales[i] if scales else 0.5)) for i, s in enumerate(shapes)]
    if so is None:
        so = list(shapes[0])
        so[axis] = sum(s[axis] for s in shapes)
    o = fm("ofm", so, dtype)
    op = mkop(Op.ConcatTFLite, "cc", ts, o, dict(axis=axis, fused_activation_function=faf))
    return [op], ts, [o]


def split(s=(1, 8, 8, 4), axis=3, n=2, dtype=I8):
    a = fm("a", s, dtype)
    axt = const("axis", (), I32, axis, quant=False)
    so = list(s)
    so[axis] //= n
    outs = [fm(f"o{i}", so, dtype) for i in range(n)]
    op = mkop(Op.Split, "split", [axt, a], outs, dict(num_splits=n))
    return [op], [a], outs


def splitv(s=(1, 8, 8, 4), axis=3, sizes=(1, 3), dtype=I8, out_sizes=None):
    a = fm("a", s, dtype)
    axt = const("axis", (), I32, axis, quant=False)
    szt = const("sizes", (len(sizes),), I32, list(sizes), quant=False)
    outs = []
    for i, z in enumerate(out_sizes or sizes):
        so = list(s)
        so[axis] = z
        outs.append(fm(f"o{i}", so, dtype))
    op = mkop(Op.SplitV, "splitv", [a, szt, axt], outs, dict(num_splits=len(sizes)))
    return [op], [a], outs


def sslice(s=(1, 8, 8, 4), begin=(0, 0, 0, 0), end=(1, 4, 8, 4), strides=(1, 1, 1, 1), so=None, dtype=I8, bm=0, em=0,
           sm=0, nm=0, el=0, offset=False):
    a = fm("a", s, dtype)
    if so is None:
        so = [e - b for b, e in zip(begin, end)]
    o = fm("ofm", so, dtype)
    ins = [a, const("begin", (len(begin),), I32, list(begin), quant=False),
           const("end", (len(end),), I32, list(end), quant=False),
           const("strides", (len(strides),), I32, list(strides), quant=False)]
    op = mkop(Op.StridedSlice, "ss", ins, o, dict(begin_mask=bm, end_mask=em, ellipsis_mask=el, new_axis_mask=nm,
                                                   shrink_axis_mask=sm, offset=offset))
    return [op], [a], [o]


def slice_(s=(1, 8, 8, 4), begin=(0, 0, 0, 0), size=(1, 4, 8, 4), dtype=I8):
    a = fm("a", s, dtype)
    o = fm("ofm", size, dtype)
    ins = [a, const("begin", (len(begin),), I32, list(begin), quant=False),
           const("size", (len(size),), I32, list(size), quant=False)]
    op = mkop(Op.Slice, "sl", ins, o, {})
    return [op], [a], [o]


def resize(kind=Op.ResizeBilinear, s=(1, 4, 4, 4), ohw=(8, 8), ac=False, hpc=False, dtype=I8, size=None):
    a = fm("a", s, dtype)
    o = fm("ofm", (1, ohw[0], ohw[1], s[3]), dtype)
    st = const("size", (2,), I32, list(size or ohw), quant=False)
    op = mkop(kind, "rz", [a, st], o, dict(align_corners=ac, half_pixel_centers=hpc))
    return [op], [a], [o]


def transpose(s=(1, 8, 4, 6), perm=(0, 2, 1, 3), dtype=I8):
    a = fm("a", s, dtype)
    o = fm("ofm", [s[p] for p in perm], dtype)
    pt = const("perm", (len(perm),), I32, list(perm), quant=False)
    op = mkop(Op.Transpose, "tr", [a, pt], o, {})
    return [op], [a], [o]


def argmax(s=(1, 8, 8, 16), axis=3, dtype=I8, odtype=I32, so=None):
    a = fm("a", s, dtype)
    if so is None:
        so = [d for i, d in enumerate(s) if i != axis % len(s)]
    o = fm("ofm", so, odtype, quant=False)
    axt = const("axis", (), I32, axis, quant=False)
    op = mkop(Op.ArgMax, "am", [a, axt], o, dict(output_type=odtype))
    return [op], [a], [o]


def softmax(s=(1, 16), dtype=I8, beta=1.0, do=None):
    a = fm("a", s, dtype, scale=0.1)
    o = fm("ofm", s, do or dtype, scale=1.0 / 256, zp=-128 if (do or dtype) == I8 else 0)
    op = mkop(Op.Softmax, "sm", [a], o, dict(beta=beta))
    return [op], [a], [o]


def pack(shapes=((8, 4), (8, 4)), axis=0, dtype=I8):
    ts = [fm(f"in{i}", s, dtype) for i, s in enumerate(shapes)]
    so = list(shapes[0])
    so.insert(axis % (len(so) + 1), len(shapes))
    o = fm("ofm", so, dtype)
    op = mkop(Op.Pack, "pk", ts, o, dict(axis=axis, values_count=len(shapes)))
    return [op], ts, [o]


def unpack(s=(2, 8, 4), axis=0, dtype=I8):
    a = fm("a", s, dtype)
    so = [d for i, d in enumerate(s) if i != axis % len(s)]
    outs = [fm(f"o{i}", so, dtype) for i in range(s[axis])]
    op = mkop(Op.Unpack, "up", [a], outs, dict(axis=axis, num=s[axis]))
    return [op], [a], outs


def ops_with_outputs(buf):
    """[(operator name, first output tensor name)] of subgraph 0"""
    m = Model.Model.GetRootAsModel(bytearray(buf), 0)
    sg = m.Subgraphs(0)
    res = []
    for i in range(sg.OperatorsLength()):
        o = sg.Operators(i)
        oc = m.OperatorCodes(o.OpcodeIndex())
        code = max(oc.BuiltinCode(), oc.DeprecatedBuiltinCode())
        nm = builtin_operator_name_map[code]
        if oc.CustomCode() is not None:
            nm = "CUSTOM:" + oc.CustomCode().decode()
        res.append((nm, sg.Tensors(o.Outputs(0)).Name().decode()))
    return res


def try_compile(case, accel="ethos-u55-128", extra=()):
    """case = (ops, inputs, outputs). returns ('ok', [(op, out)]) or ('exception', text)"""
    import contextlib, io, traceback
    buf = build(*case)
    try:
        sys.stdout.flush()
        saved = os.dup(1)
        devnull = os.open(os.devnull, os.O_WRONLY)
        os.dup2(devnull, 1)
        try:
            res, _ = compile_(buf, accel, extra=extra, quiet=False)
        finally:
            sys.stdout.flush()
            os.dup2(saved, 1)
            os.close(devnull)
            os.close(saved)
    except BaseException as e:  # noqa
        tb = traceback.format_exc().strip().split("\n")
        where = [l.strip() for l in tb if l.strip().startswith("File")][-1]
        return "exception", "%r at %s" % (e, where)
    if res is None:
        return "error", "vela returned an error"
    return "ok", ops_with_outputs(res)

# Observation 2 (unmodified tree): an int8 CONV_2D / DEPTHWISE_CONV_2D whose weight tensor has a non-zero zero point
# satisfies every constraint of the generated SUPPORTED_OPS report, but check_asymmetric_weights() (graph optimiser)
# places it on the CPU unless --force-symmetric-int-weights is given. The report does not list this constraint.
import os, sys
sys.path.insert(0, os.getcwd()); sys.path.insert(0, os.path.join(os.getcwd(), "out"))
from obs_common import *  # noqa

print("int8 CONV_2D, weight zero point 3            ->", try_compile(conv(wzp=3)))
print("same, --force-symmetric-int-weights           ->", try_compile(conv(wzp=3), extra=("--force-symmetric-int-weights",)))
print("uint8 CONV_2D, weight zero point 3 (for ref.) ->", try_compile(conv(dtype=U8, wzp=3)))

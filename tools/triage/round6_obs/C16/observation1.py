# Observation 1 (unmodified tree): 'Optional Bias tensor values must fit within 40-bits' is checked on the magnitude
# only (len(bin(value)[2:]) <= 40), i.e. not on the signed 40-bit range the bias encoder needs.
#  * an int64 bias value in [2**39, 2**40-1] passes every documented constraint -> compilation crashes
#    (AssertionError in weight_compressor.encode_bias) instead of being accelerated or left on the CPU
#  * the value -2**39, which does fit into signed 40 bits, is rejected (bin(-x) = '-0b...' -> one extra character)
import os, sys
sys.path.insert(0, os.getcwd()); sys.path.insert(0, os.path.join(os.getcwd(), "out"))
from obs_common import *  # noqa

for v in (2**39 - 1, 2**39, 2**40 - 1, 2**40, -(2**39) + 1, -(2**39)):
    print("int16 CONV_2D, int64 bias[0] = %d ->" % v,
          try_compile(conv(dtype=I16, bias_dtype=I64, bias_vals=[v] + [0] * 7)))

# Observation 6 (unmodified tree): SPLIT_V with a non-constant size_splits operand (or a non-constant 1-D axis operand)
# passes every listed constraint (only a *scalar* non-constant input is caught by 'Input(s) and Output tensors must not
# be dynamic'; 'Only one size is allowed to be inferred' evaluates None == -1). rewrite_split_ops then hits
# 'assert len(size_tens.ops) == 1 and size_tens.ops[0].type == Op.Const' -> compilation aborts.
import os, sys
sys.path.insert(0, os.getcwd()); sys.path.insert(0, os.path.join(os.getcwd(), "out"))
from obs_common import *  # noqa

def splitv_dyn(dyn_sizes, dyn_axis_1d):
    a = fm("a", (1, 8, 8, 4), I8)
    szt = fm("sizes", (2,), I32, quant=False) if dyn_sizes else const("sizes", (2,), I32, [1, 3], quant=False)
    axt = fm("axis", (1,), I32, quant=False) if dyn_axis_1d else const("axis", (), I32, 3, quant=False)
    outs = [fm("o0", (1, 8, 8, 1), I8), fm("o1", (1, 8, 8, 3), I8)]
    op = mkop(Op.SplitV, "splitv", [a, szt, axt], outs, dict(num_splits=2))
    return [op], [a] + ([szt] if dyn_sizes else []) + ([axt] if dyn_axis_1d else []), outs
print("constant operands            ->", try_compile(splitv_dyn(False, False)))
print("non-constant size_splits     ->", try_compile(splitv_dyn(True, False)))
print("non-constant axis, shape [1] ->", try_compile(splitv_dyn(False, True)))

"""OBSERVATION 3 (unmodified tree): the public block-config query offers configurations that the command-stream
generator rejects.

16 bit REDUCE_SUM (IFM 8x32x8 int16, OFM 8x32x1 int32) whose feature maps have a quantisation record without a scale
(NpuQuantization(scale_f32=None, zero_point=0)), accelerator Ethos-U55-128.

api.npu_find_block_configs treats the operation as 'scaled' (the quantisation records are not None) and sizes the
accumulators as 40 bit (bank granule 12); register_command_stream_generator.get_arch_block_config treats it as not
scaled (scale_f32 is None) and sizes them as 32 bit (granule 8). Because of the different granules the 32 bit
accumulators can need MORE banks (e.g. block 6x24x8: 40 bit -> round_up(2*6, 12) = 12 banks, 32 bit ->
round_up(2*5, 8) = 16 banks), so 3 of the 53 offered configurations are rejected with
'block_config ... does not fit'. (observation2.py is the same mismatch between scheduler and generator.)
"""
import os
import sys

sys.path.insert(0, os.getcwd())

from ethosu.vela.api import NpuAccelerator
from ethosu.vela.api import NpuDataType
from ethosu.vela.api import NpuFeatureMap
from ethosu.vela.api import NpuKernel
from ethosu.vela.api import NpuLayout
from ethosu.vela.api import NpuPadding
from ethosu.vela.api import NpuPoolingOp
from ethosu.vela.api import NpuPoolingOperation
from ethosu.vela.api import NpuQuantization
from ethosu.vela.api import NpuShape3D
from ethosu.vela.api import NpuTileBox
from ethosu.vela.api import npu_find_block_configs
from ethosu.vela.api import npu_generate_register_command_stream


def fm(h, w, c, addr, dt):
    f = NpuFeatureMap()
    f.data_type = dt
    f.shape = NpuShape3D(height=h, width=w, depth=c)
    f.tiles = NpuTileBox(width_0=w, height_0=h, height_1=h, addresses=[addr, 0, 0, 0])
    f.region = 1
    f.layout = NpuLayout.NHWC
    esz = dt.size_in_bytes()
    f.strides = NpuShape3D(height=w * c * esz, width=c * esz, depth=esz)
    f.quantization = NpuQuantization(scale_f32=None, zero_point=0)
    return f


def main():
    op = NpuPoolingOperation(NpuPoolingOp.REDUCE_SUM)
    op.ifm = fm(8, 32, 8, 0, NpuDataType.INT16)
    op.ofm = fm(8, 32, 1, 1 << 20, NpuDataType.INT32)
    op.kernel = NpuKernel(1, 1)
    op.padding = NpuPadding(0, 0, 0, 0)
    accel = NpuAccelerator.Ethos_U55_128
    configs = npu_find_block_configs(op, accel)
    rejected = []
    for cfg in configs:
        op.block_config = cfg
        try:
            npu_generate_register_command_stream([op], accel)
        except AssertionError as e:
            rejected.append(f"{tuple(cfg)}: {e}")
    print(f"{len(configs)} block configurations offered, {len(rejected)} rejected by the generator")
    for r in rejected:
        print("  VIOLATION:", r)
    return 1 if rejected else 0


if __name__ == "__main__":
    sys.exit(main())

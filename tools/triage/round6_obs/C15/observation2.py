import math
import os
import sys
import tempfile

sys.path.insert(0, os.getcwd())

# ---------------------------------------------------------------------------------------------------------------------
# Independent description of the Ethos-U shared buffer (SHRAM), written down from the hardware documentation:
#   accelerator -> (number of 1 KB banks, OFM micro-block (w, h, d),
#                   bank granules [IFM8, IFM16, IFM8 elementwise, IFM16 elementwise, IFM32, ACC16, ACC32, ACC40])
# ---------------------------------------------------------------------------------------------------------------------
HW = {
    "ethos-u55-32": (16, (1, 1, 4), (2, 2, 2, 2, 4, 4, 4, 4)),
    "ethos-u55-64": (16, (1, 1, 8), (2, 2, 2, 2, 4, 4, 4, 8)),
    "ethos-u55-128": (24, (2, 1, 8), (4, 4, 4, 4, 8, 4, 8, 12)),
    "ethos-u55-256": (48, (2, 2, 8), (8, 8, 8, 8, 16, 8, 16, 20)),
    "ethos-u65-256": (48, (2, 2, 8), (8, 8, 8, 8, 16, 8, 16, 20)),
    "ethos-u65-512": (48, (2, 2, 8), (8, 8, 8, 8, 16, 8, 16, 20)),
}
MAX_BLK = (32, 64, 128)  # h, w, d
BANK = 1024
SHRAM_REGION = 3  # DMA destination region of the shared buffer (memory to memory base pointer index & 3)


def rup(a, b):
    return -(-a // b) * b


def decode(stream):
    """Walks an Ethos-U register command stream; yields (kind, registers) at every operation command.
    kind is conv / dw / pool / ew / dma; registers is a snapshot of all cmd0 parameters and cmd1 payloads."""
    from ethosu.vela.ethos_u55_regs.ethos_u55_regs import cmd0, cmd1

    opk = {
        cmd0.NPU_OP_CONV.value: "conv",
        cmd0.NPU_OP_DEPTHWISE.value: "dw",
        cmd0.NPU_OP_POOL.value: "pool",
        cmd0.NPU_OP_ELEMENTWISE.value: "ew",
        cmd0.NPU_OP_DMA_START.value: "dma",
    }
    regs = {}
    i = 0
    while i < len(stream):
        w = stream[i]
        code = w & 0xFFFF
        param = (w >> 16) & 0xFFFF
        opc = code & 0x3FF
        if code & 0x4000:
            try:
                regs[cmd1(opc).name] = (param << 32) | stream[i + 1]
            except ValueError:
                pass
            i += 2
            continue
        i += 1
        if opc in opk:
            r = dict(regs)
            r["OP_PARAM"] = param
            yield opk[opc], r
        else:
            try:
                regs[cmd0(opc).name] = param
            except ValueError:
                pass


def check_block_op(accel, kind, r):
    """Checks OFM block and SHRAM partition registers of one emitted block operation against the hardware rules.
    Returns a list of problems (empty = valid)."""
    banks, (uw, uh, ud), gran = HW[accel]
    errs = []
    bh = r["NPU_SET_OFM_BLK_HEIGHT_M1"] + 1
    bw = r["NPU_SET_OFM_BLK_WIDTH_M1"] + 1
    bd = r["NPU_SET_OFM_BLK_DEPTH_M1"] + 1
    if bh % uh or bw % uw or bd % ud:
        errs.append(f"OFM block {bh}x{bw}x{bd} (HxWxD) is not a multiple of the micro-block {uh}x{uw}x{ud}")
    if bh > MAX_BLK[0] or bw > MAX_BLK[1] or bd > MAX_BLK[2]:
        errs.append(f"OFM block {bh}x{bw}x{bd} (HxWxD) exceeds the maximum block 32x64x128")
    ifm_bits = {0: 8, 1: 16, 2: 32}[(r["NPU_SET_IFM_PRECISION"] >> 2) & 3]
    uses_lut = (r.get("NPU_SET_ACTIVATION", 0) & 0x1F) >= 16
    # the last two banks hold the lookup table (and are reserved on the 24 / 48 bank configurations)
    usable_end = banks - 2 if (banks > 16 or uses_lut) else banks
    ib_end = r["NPU_SET_IFM_IB_END"]
    ab_start = r["NPU_SET_AB_START"]
    upscale_mode = r.get("NPU_SET_IFM_UPSCALE", 0)
    upscale = 1 if upscale_mode == 0 else 2
    nearest = 1 if upscale_mode == 1 else 0
    if kind == "ew":
        kw = kh = sx = sy = 1
        partk = False
    else:
        kw = r["NPU_SET_KERNEL_WIDTH_M1"] + 1  # dilated size
        kh = r["NPU_SET_KERNEL_HEIGHT_M1"] + 1
        ks = r["NPU_SET_KERNEL_STRIDE"]
        sx = ((ks & 1) | (((ks >> 6) & 7) << 1)) + 1
        sy = (((ks >> 1) & 1) | (((ks >> 9) & 7) << 1)) + 1
        partk = bool(ks & 4)
    # IFM block needed to produce one OFM block (sub-kernels are at most 8x8)
    ih = rup(math.ceil(((bh - 1) * sy + min(kh, 8) + nearest) / upscale), uh)
    iw = rup(math.ceil(((bw - 1) * sx + min(kw, 8) + nearest) / upscale), uw)
    reduce_sum = kind == "pool" and (r["OP_PARAM"] & 3) == 2
    if kind in ("ew", "pool", "dw") and not reduce_sum:
        idp = bd
    else:
        ifm_depth = r["NPU_SET_IFM_DEPTH_M1"] + 1
        if ifm_bits == 16:
            idp = rup(min(ifm_depth, 16), 4)
        else:
            idp = rup(min(ifm_depth, 16 if partk else 32), 8)
    ifm_bytes = ih * iw * rup(idp * ifm_bits // 8, 8)
    g_ifm = {8: gran[2] if kind == "ew" else gran[0], 16: gran[3] if kind == "ew" else gran[1], 32: gran[4]}[ifm_bits]
    ifm_banks = rup(2 * -(-ifm_bytes // BANK), g_ifm)
    if not (2 <= ib_end <= ab_start <= usable_end <= banks):
        errs.append(f"partitions not ordered: IB_START=2 IB_END={ib_end} AB_START={ab_start} end={usable_end} of {banks}")
    if kind == "ew":
        unary = r["OP_PARAM"] in (5, 6, 7)  # LRELU, ABS, CLZ
        scalar = bool(r.get("NPU_SET_IFM2_BROADCAST", 0) & 0x80)
        if unary or scalar:
            if ib_end - 2 < ifm_banks:
                errs.append(f"IFM partition [2,{ib_end}) < {ifm_banks} banks needed by IFM block {ih}x{iw}x{idp}")
        else:
            ib2 = r.get("NPU_SET_IFM2_IB_START")
            if ib2 is None or ib2 - 2 < ifm_banks:
                errs.append(f"IFM partition [2,{ib2}) < {ifm_banks} banks needed by IFM block {ih}x{iw}x{idp}")
            elif ib_end - ib2 < ifm_banks:
                errs.append(f"IFM2 partition [{ib2},{ib_end}) < {ifm_banks} banks needed by IFM2 block {ih}x{iw}x{idp}")
    else:
        if ib_end - 2 < ifm_banks:
            errs.append(
                f"IFM partition [2,{ib_end}) < {ifm_banks} banks needed to double-buffer IFM block {ih}x{iw}x{idp} "
                f"({ifm_bits} bit, OFM block {bh}x{bw}x{bd}, kernel {kh}x{kw} dilated, stride {sy}x{sx})"
            )
        acc_bits = {0: 32, 1: 40, 2: 16}[r["NPU_SET_ACC_FORMAT"] & 3]
        g_acc = {32: gran[6], 40: gran[7], 16: gran[5]}[acc_bits]
        abh = bh
        if uh == 2 and r["NPU_SET_OFM_HEIGHT_M1"] == 0 and kh == 1:
            abh = 1  # 1-D optimisation of the 256 / 512 MAC configurations
        acc_bytes = abh * bw * rup(bd, 8) * acc_bits // 8
        acc_banks = rup(2 * -(-acc_bytes // BANK), g_acc)
        if usable_end - ab_start < acc_banks:
            errs.append(
                f"accumulator partition [{ab_start},{usable_end}) < {acc_banks} banks needed to double-buffer "
                f"block {abh}x{bw}x{bd} at {acc_bits} bit"
            )
    return errs


def check_stream(accel, stream):
    """Checks every block operation and every DMA into the shared buffer of an emitted command stream"""
    banks = HW[accel][0]
    out = []
    lut_dmas = []
    n = 0
    for kind, r in decode(stream):
        if kind == "dma":
            if (r.get("NPU_SET_DMA0_DST_REGION", 0) & 3) == SHRAM_REGION and r.get("NPU_SET_DMA0_DST_REGION", 0) >= 256:
                lut_dmas.append((r["NPU_SET_DMA0_DST"], r["NPU_SET_DMA0_LEN"]))
            continue
        for e in check_block_op(accel, kind, r):
            out.append(f"{accel} op#{n} {kind}: {e}")
        if (r.get("NPU_SET_ACTIVATION", 0) & 0x1F) >= 16:
            # a lookup table is used: it must have been written to the LUT partition = the last two banks
            for dst, length in lut_dmas:
                if dst < (banks - 2) * BANK or dst + length > banks * BANK:
                    out.append(
                        f"{accel} op#{n} {kind}: lookup table written to SHRAM [{dst},{dst + length}) = banks "
                        f"{dst / BANK:g}..{(dst + length) / BANK:g}, outside the LUT partition (banks {banks - 2}..{banks}) "
                        f"and inside the IFM/accumulator partitions that end at bank {banks - 2}"
                    )
            if not lut_dmas:
                out.append(f"{accel} op#{n} {kind}: uses a lookup table that was never written")
        n += 1
    return out


# ---------------------------------------------------------------------------------------------------------------------
# Small TFLite models, built in memory with Vela's own graph classes and serialised with its TFLite writer
# ---------------------------------------------------------------------------------------------------------------------
def _quant(scale, zp=0):
    import numpy as np
    from ethosu.vela.tensor import QuantizationParameters

    q = QuantizationParameters()
    q.scale_f32 = np.float32(scale)
    q.zero_point = zp
    return q


class ModelBuilder:
    def __init__(self):
        self.ops = []
        self.inputs = []
        self.count = 0

    def _name(self, prefix):
        self.count += 1
        return f"{prefix}{self.count}"

    def _fm(self, shape, scale=0.05):
        from ethosu.vela.data_type import DataType
        from ethosu.vela.tensor import Tensor

        t = Tensor(list(shape), DataType.int8, self._name("fm"))
        t.quantization = _quant(scale)
        return t

    def input(self, shape):
        from ethosu.vela.operation import Op, Operation

        t = self._fm(shape)
        Operation(Op.Placeholder, t.name + "_placeholder").set_output_tensor(t)
        self.inputs.append(t)
        return t

    def _add(self, op_type, prefix, inputs, ofm, attrs):
        from ethosu.vela.operation import Operation

        op = Operation(op_type, self._name(prefix))
        op.inputs = list(inputs)
        for t in inputs:
            t.consumer_list.append(op)
        op.set_output_tensor(ofm)
        op.attrs = attrs
        op.run_on_npu = False
        self.ops.append(op)
        return ofm

    def conv2d(self, ifm, ofm_depth, kernel_hw, stride_hw=(1, 1), dilation_hw=(1, 1), same=True, depthwise=False):
        import numpy as np
        from ethosu.vela.data_type import DataType
        from ethosu.vela.operation import Op, Padding
        from ethosu.vela.tensor import create_const_tensor

        kh, kw = kernel_hw
        ic = ifm.shape[-1]
        oc = ic if depthwise else ofm_depth
        wshape = [1, kh, kw, ic] if depthwise else [oc, kh, kw, ic]
        rng = np.random.RandomState(self.count)
        weights = create_const_tensor(
            self._name("w"), wshape, DataType.int8, rng.randint(-20, 20, size=wshape), quantization=_quant(0.01)
        )
        bias = create_const_tensor(self._name("b"), [oc], DataType.int32, np.zeros(oc), quantization=_quant(0.0005))
        h, w = ifm.shape[1], ifm.shape[2]
        if same:
            oh, ow = -(-h // stride_hw[0]), -(-w // stride_hw[1])
        else:
            oh = -(-(h - (kh - 1) * dilation_hw[0]) // stride_hw[0])
            ow = -(-(w - (kw - 1) * dilation_hw[1]) // stride_hw[1])
        attrs = {
            "padding": Padding.SAME if same else Padding.VALID,
            "stride_h": stride_hw[0],
            "stride_w": stride_hw[1],
            "dilation_h_factor": dilation_hw[0],
            "dilation_w_factor": dilation_hw[1],
            "fused_activation_function": None,
        }
        if depthwise:
            attrs["depth_multiplier"] = 1
        op_type = Op.DepthwiseConv2DBias if depthwise else Op.Conv2DBias
        return self._add(op_type, "conv", [ifm, weights, bias], self._fm([1, oh, ow, oc]), attrs)

    def maxpool(self, ifm, kernel_hw, stride_hw):
        from ethosu.vela.operation import Op, Padding

        oh, ow = -(-ifm.shape[1] // stride_hw[0]), -(-ifm.shape[2] // stride_hw[1])
        attrs = {
            "padding": Padding.SAME,
            "stride_h": stride_hw[0],
            "stride_w": stride_hw[1],
            "filter_height": kernel_hw[0],
            "filter_width": kernel_hw[1],
            "fused_activation_function": None,
        }
        return self._add(Op.MaxPool, "pool", [ifm], self._fm([1, oh, ow, ifm.shape[3]]), attrs)

    def tanh(self, ifm):
        from ethosu.vela.operation import Op

        return self._add(Op.Tanh, "tanh", [ifm], self._fm(ifm.shape, 1.0 / 128), {})

    def add(self, a, b):
        from ethosu.vela.operation import Op

        return self._add(Op.Add, "add", [a, b], self._fm(a.shape, 0.1), {"fused_activation_function": None, "pot_scale_int16": False})

    def serialise(self, outputs):
        from ethosu.vela import tflite_writer
        from ethosu.vela.nn_graph import Graph, Pass, PassPlacement, Subgraph
        from ethosu.vela.operation import NpuBlockType

        nng = Graph("model")
        sg = Subgraph("main", PassPlacement.Cpu)
        sg.input_tensors = list(self.inputs)
        sg.original_inputs = list(self.inputs)
        sg.output_tensors = list(outputs)
        for op in self.ops:
            ps = Pass(op.name, PassPlacement.Cpu, False, NpuBlockType.Default)
            ps.ops = [op]
            ps.primary_op = op
            sg.passes.append(ps)
        nng.subgraphs.append(sg)
        return bytes(tflite_writer.write_tflite_buffer(nng))


def compile_model(tflite_bytes, accel):
    """Runs the complete Vela compiler (ethosu.vela.vela.main) on the model; returns the emitted command streams"""
    from ethosu.vela import high_level_command_to_npu_op as hl
    from ethosu.vela import register_command_stream_generator as rcsg
    from ethosu.vela import vela

    streams = []
    orig = rcsg.generate_command_stream

    def spy(*args, **kwargs):
        res = orig(*args, **kwargs)
        streams.append(list(res))
        return res

    rcsg.generate_command_stream = spy
    hl.generate_command_stream = spy
    out_dir = tempfile.mkdtemp(prefix="c15_demo_")
    path = os.path.join(out_dir, "model.tflite")
    with open(path, "wb") as f:
        f.write(tflite_bytes)
    sys.stdout.flush()
    saved = os.dup(1)
    devnull = os.open(os.devnull, os.O_WRONLY)
    os.dup2(devnull, 1)  # the compiler prints its report to stdout
    try:
        vela.main([path, "--accelerator-config", accel, "--output-dir", out_dir])
    finally:
        sys.stdout.flush()
        os.dup2(saved, 1)
        os.close(saved)
        os.close(devnull)
        rcsg.generate_command_stream = orig
        hl.generate_command_stream = orig
    assert streams, "no command stream was generated (nothing was placed on the NPU)"
    return streams


# ---------------------------------------------------------------------------------------------------------------------
# OBSERVATION 2 (unmodified tree): int16 SOFTMAX of a 1x8x32x8 tensor cannot be compiled for Ethos-U55-128:
#   AssertionError: block_config NpuShape3D(height=5, width=26, depth=8) does not fit
#
# The lowered softmax contains a 16 bit REDUCE_SUM whose feature maps carry quantisation records without a scale
# (scale_f32 = None). scheduler._get_block_config passes scaled = Operation.has_scaling() = True ("a quantisation record
# exists") to find_block_config, so the block is searched with 40 bit accumulators (bank granule 12 on U55-128);
# register_command_stream_generator.get_arch_block_config computes scaled = False ("a scale is missing") and validates
# the same block with 32 bit accumulators (granule 8). For the OFM block 5x26x8 the 40 bit accumulators take
# round_up(2 * 6, 12) = 12 banks but the 32 bit ones round_up(2 * 5, 8) = 16 banks, which together with the IFM block no
# longer fits into the 22 usable banks, so the block configuration selected by the scheduler is rejected by the generator.
# (1x10x26x8 fails in the same way with block 6x24x8; the other accelerators have granules for which 32 bit never needs
# more banks than 40 bit.)
# ---------------------------------------------------------------------------------------------------------------------
def softmax_int16(shape):
    import numpy as np
    from ethosu.vela.data_type import DataType
    from ethosu.vela.operation import Op

    b = ModelBuilder()
    x = b.input(shape)
    x.dtype = DataType.int16
    x.quantization = _quant(1.0 / 4096)
    y = b._fm(shape, 1.0 / 32768)
    y.dtype = DataType.int16
    b._add(Op.Softmax, "softmax", [x], y, {"beta": np.float32(1.0)})
    return b.serialise([y])


def main():
    bad = 0
    for shape in ([1, 8, 32, 8], [1, 10, 26, 8]):
        model = softmax_int16(shape)
        for accel in HW:
            try:
                streams = compile_model(model, accel)
            except AssertionError as e:
                bad += 1
                print(f"int16 SOFTMAX {shape} {accel}: VIOLATION - selected block configuration rejected by the generator: {e}")
                continue
            errs = [p for s in streams for p in check_stream(accel, s)]
            print(f"int16 SOFTMAX {shape} {accel}: compiled,", "layout problems: " + "; ".join(errs) if errs else "valid")
            bad += bool(errs)
    return 1 if bad else 0


if __name__ == "__main__":
    sys.exit(main())

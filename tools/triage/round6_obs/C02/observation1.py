"""C02 observation 1 (UNMODIFIED tree): the arena cache size configured in a Vela configuration file is ignored.

vela.py declares `--arena-cache-size` with `default=384 * 1024`, so ArchitectureFeatures._get_vela_config() always sees a
CLI value ("arena_cache_size = 393216 from CLI option") and overrides the `arena_cache_size=` attribute of the selected
[Memory_Mode.*] section.  A Dedicated-SRAM memory mode that declares a 64 KiB SRAM therefore gets a fast-scratch tensor
of up to 384 KiB in the output file: the published fast-scratch extent exceeds the configured arena cache size.
(The shipped Dedicated_Sram_512KB mode is affected the other way round: only 384 KiB of its 512 KiB are ever used.)

Exits 1 (prints FAIL) when the violation is observed, which is the case on the unmodified tree.
"""
import contextlib
import io
import os
import shutil
import sys
import tempfile

sys.path.insert(0, os.getcwd())

# ---------------------------------------------------------------------------------------------------------------------
# in-memory .tflite model builder (Vela's own graph classes + tflite_writer)
# ---------------------------------------------------------------------------------------------------------------------
"""Tiny in-memory .tflite model builder on top of Vela's own classes."""
import numpy as np

from ethosu.vela.data_type import DataType
from ethosu.vela.nn_graph import Graph
from ethosu.vela.nn_graph import Subgraph
from ethosu.vela.operation import Op
from ethosu.vela.operation import Operation
from ethosu.vela.operation import Padding
from ethosu.vela.tensor import QuantizationParameters
from ethosu.vela.tensor import Tensor
from ethosu.vela.tflite_writer import write_tflite_buffer

_NP = {DataType.int8: np.int8, DataType.uint8: np.uint8, DataType.int16: np.int16, DataType.int32: np.int32}


class _Pass:
    def __init__(self, ops):
        self.ops = ops
        self.inputs = []
        self.outputs = []


def qp(scale=0.05, zp=0, per_axis=None):
    q = QuantizationParameters()
    if per_axis is not None:
        q.scale_f32 = np.array(scale, dtype=np.float32)
        q.zero_point = np.array(zp, dtype=np.int64)
        q.quant_dim = per_axis
    else:
        q.scale_f32 = np.float32(scale)
        q.zero_point = np.int64(zp)
    q.quant_min = None
    q.quant_max = None
    return q


class MB:
    def __init__(self, seed=0, dtype=DataType.int8):
        self.ops = []
        self.inputs = []
        self.rng = np.random.RandomState(seed)
        self.n = 0
        self.dtype = dtype

    def _name(self, base):
        self.n += 1
        return f"{base}_{self.n}"

    def tensor(self, shape, dtype=None, name="t", scale=0.05, zp=0):
        t = Tensor(list(shape), dtype or self.dtype, self._name(name))
        t.quantization = qp(scale, zp)
        return t

    def const(self, values, dtype, name="c", scale=0.05, zp=0, quant=True):
        values = np.asarray(values).astype(_NP[dtype])
        t = Tensor(list(values.shape), dtype, self._name(name))
        t.values = values
        if quant:
            t.quantization = qp(scale, zp)
        op = Operation(Op.Const, t.name)
        op.set_output_tensor(t)
        return t

    def input(self, shape, dtype=None, scale=0.05, zp=0):
        t = self.tensor(shape, dtype, "input", scale, zp)
        op = Operation(Op.Placeholder, t.name)
        op.set_output_tensor(t)
        self.inputs.append(t)
        return t

    def _op(self, optype, inputs, out, attrs=None, base="op"):
        op = Operation(optype, self._name(base))
        for i in inputs:
            if i is None:
                op.inputs.append(None)
            else:
                op.add_input_tensor(i)
        op.set_output_tensor(out)
        if attrs:
            op.attrs.update(attrs)
        self.ops.append(op)
        return out

    @staticmethod
    def _out_hw(h, w, kh, kw, sh, sw, dh, dw, padding):
        ekh = (kh - 1) * dh + 1
        ekw = (kw - 1) * dw + 1
        if padding == Padding.SAME:
            return (h + sh - 1) // sh, (w + sw - 1) // sw
        return (h - ekh) // sh + 1, (w - ekw) // sw + 1

    def conv2d(self, x, out_ch, k=(3, 3), stride=(1, 1), padding=Padding.SAME, dilation=(1, 1), act=None, scale=0.05, bias=True):
        n, h, w, c = x.shape
        kh, kw = k
        wv = self.rng.randint(-127, 128, size=(out_ch, kh, kw, c))
        wt = self.const(wv, DataType.int8, "weights", 0.01, 0)
        bt = self.const(self.rng.randint(-1000, 1000, size=(out_ch,)), DataType.int32, "bias", 0.0005, 0) if bias else None
        oh, ow = self._out_hw(h, w, kh, kw, stride[0], stride[1], dilation[0], dilation[1], padding)
        out = self.tensor([n, oh, ow, out_ch], x.dtype, "conv_out", scale)
        attrs = {
            "padding": padding,
            "stride_h": stride[0],
            "stride_w": stride[1],
            "dilation_h_factor": dilation[0],
            "dilation_w_factor": dilation[1],
            "fused_activation_function": act,
        }
        return self._op(Op.Conv2DBias, [x, wt, bt], out, attrs, "conv")

    def depthwise(self, x, k=(3, 3), stride=(1, 1), padding=Padding.SAME, dilation=(1, 1), act=None, scale=0.05, mult=1):
        n, h, w, c = x.shape
        kh, kw = k
        oc = c * mult
        wt = self.const(self.rng.randint(-127, 128, size=(1, kh, kw, oc)), DataType.int8, "dw_weights", 0.01, 0)
        bt = self.const(self.rng.randint(-1000, 1000, size=(oc,)), DataType.int32, "dw_bias", 0.0005, 0)
        oh, ow = self._out_hw(h, w, kh, kw, stride[0], stride[1], dilation[0], dilation[1], padding)
        out = self.tensor([n, oh, ow, oc], x.dtype, "dw_out", scale)
        attrs = {
            "padding": padding,
            "stride_h": stride[0],
            "stride_w": stride[1],
            "dilation_h_factor": dilation[0],
            "dilation_w_factor": dilation[1],
            "depth_multiplier": mult,
            "fused_activation_function": act,
        }
        return self._op(Op.DepthwiseConv2DBias, [x, wt, bt], out, attrs, "dw")

    def pool(self, x, kind="max", k=(2, 2), stride=(2, 2), padding=Padding.VALID, act=None):
        n, h, w, c = x.shape
        oh, ow = self._out_hw(h, w, k[0], k[1], stride[0], stride[1], 1, 1, padding)
        out = self.tensor([n, oh, ow, c], x.dtype, "pool_out", float(x.quantization.scale_f32), int(x.quantization.zero_point))
        attrs = {
            "padding": padding,
            "stride_h": stride[0],
            "stride_w": stride[1],
            "filter_height": k[0],
            "filter_width": k[1],
            "fused_activation_function": act,
        }
        return self._op(Op.MaxPool if kind == "max" else Op.AvgPool, [x], out, attrs, "pool")

    def binary(self, optype, a, b, act=None, scale=0.1, out_shape=None):
        if out_shape is None:
            sa, sb = list(a.shape), list(b.shape)
            while len(sa) < len(sb):
                sa.insert(0, 1)
            while len(sb) < len(sa):
                sb.insert(0, 1)
            out_shape = [max(p, q) for p, q in zip(sa, sb)]
        out = self.tensor(out_shape, a.dtype, "ew_out", scale)
        attrs = {"fused_activation_function": act}
        if optype in (Op.Add, Op.Sub):
            attrs["pot_scale_int16"] = False
        return self._op(optype, [a, b], out, attrs, "ew")

    def add(self, a, b, **kw):
        return self.binary(Op.Add, a, b, **kw)

    def mul(self, a, b, **kw):
        return self.binary(Op.Mul, a, b, **kw)

    def unary(self, optype, x, scale=None, attrs=None):
        out = self.tensor(x.shape, x.dtype, "un_out", scale if scale is not None else float(x.quantization.scale_f32))
        return self._op(optype, [x], out, attrs or {}, "un")

    def fc(self, x, out_ch, act=None, scale=0.05):
        n, c = x.shape[0], int(np.prod(x.shape[1:]))
        wt = self.const(self.rng.randint(-127, 128, size=(out_ch, c)), DataType.int8, "fc_weights", 0.01, 0)
        bt = self.const(self.rng.randint(-1000, 1000, size=(out_ch,)), DataType.int32, "fc_bias", 0.0005, 0)
        out = self.tensor([n, out_ch], x.dtype, "fc_out", scale)
        attrs = {
            "fused_activation_function": act,
            "weights_format": 0,
            "keep_num_dims": False,
            "asymmetric_quantize_inputs": False,
        }
        return self._op(Op.FullyConnected, [x, wt, bt], out, attrs, "fc")

    def reshape(self, x, new_shape):
        st = self.const(np.array(new_shape), DataType.int32, "shape", quant=False)
        out = self.tensor(new_shape, x.dtype, "reshape_out", float(x.quantization.scale_f32), int(x.quantization.zero_point))
        return self._op(Op.Reshape, [x, st], out, {"new_shape": list(new_shape)}, "reshape")

    def concat(self, xs, axis):
        shape = list(xs[0].shape)
        shape[axis] = sum(t.shape[axis] for t in xs)
        out = self.tensor(shape, xs[0].dtype, "concat_out", float(xs[0].quantization.scale_f32), int(xs[0].quantization.zero_point))
        return self._op(Op.ConcatTFLite, list(xs), out, {"axis": axis, "fused_activation_function": None}, "concat")

    def resize_bilinear(self, x, out_hw, align_corners=False, half_pixel_centers=False):
        n, h, w, c = x.shape
        st = self.const(np.array(out_hw), DataType.int32, "size", quant=False)
        out = self.tensor([n, out_hw[0], out_hw[1], c], x.dtype, "resize_out", float(x.quantization.scale_f32), int(x.quantization.zero_point))
        return self._op(
            Op.ResizeBilinear,
            [x, st],
            out,
            {"align_corners": align_corners, "half_pixel_centers": half_pixel_centers},
            "resize",
        )

    def transpose(self, x, perm):
        pt = self.const(np.array(perm), DataType.int32, "perm", quant=False)
        shape = [x.shape[p] for p in perm]
        out = self.tensor(shape, x.dtype, "transpose_out", float(x.quantization.scale_f32), int(x.quantization.zero_point))
        return self._op(Op.Transpose, [x, pt], out, {}, "transpose")

    def pad(self, x, pads):
        pt = self.const(np.array(pads), DataType.int32, "paddings", quant=False)
        shape = [s + p[0] + p[1] for s, p in zip(x.shape, pads)]
        out = self.tensor(shape, x.dtype, "pad_out", float(x.quantization.scale_f32), int(x.quantization.zero_point))
        return self._op(Op.Pad, [x, pt], out, {}, "pad")

    def strided_slice(self, x, begin, end, strides=None):
        strides = strides or [1] * len(begin)
        bt = self.const(np.array(begin), DataType.int32, "begin", quant=False)
        et = self.const(np.array(end), DataType.int32, "end", quant=False)
        st = self.const(np.array(strides), DataType.int32, "strides", quant=False)
        shape = [(e - b + s - 1) // s for b, e, s in zip(begin, end, strides)]
        out = self.tensor(shape, x.dtype, "slice_out", float(x.quantization.scale_f32), int(x.quantization.zero_point))
        attrs = {"begin_mask": 0, "ellipsis_mask": 0, "end_mask": 0, "new_axis_mask": 0, "shrink_axis_mask": 0, "offset": False}
        return self._op(Op.StridedSlice, [x, bt, et, st], out, attrs, "slice")

    def softmax(self, x, beta=1.0):
        out = self.tensor(x.shape, x.dtype, "softmax_out", 1.0 / 256, -128 if x.dtype == DataType.int8 else 0)
        return self._op(Op.Softmax, [x], out, {"beta": beta}, "softmax")

    def mean(self, x, axes, keep_dims=True):
        at = self.const(np.array(axes), DataType.int32, "axes", quant=False)
        shape = [1 if i in axes else s for i, s in enumerate(x.shape)]
        if not keep_dims:
            shape = [s for i, s in enumerate(x.shape) if i not in axes]
        out = self.tensor(shape, x.dtype, "mean_out", float(x.quantization.scale_f32), int(x.quantization.zero_point))
        return self._op(Op.Mean, [x, at], out, {"keep_dims": keep_dims}, "mean")

    def transpose_conv(self, x, out_ch, k=(3, 3), stride=(2, 2), padding=Padding.SAME, scale=0.05):
        n, h, w, c = x.shape
        if padding == Padding.SAME:
            oh, ow = h * stride[0], w * stride[1]
        else:
            oh, ow = (h - 1) * stride[0] + k[0], (w - 1) * stride[1] + k[1]
        os_t = self.const(np.array([n, oh, ow, out_ch]), DataType.int32, "out_shape", quant=False)
        wt = self.const(self.rng.randint(-127, 128, size=(out_ch, k[0], k[1], c)), DataType.int8, "tc_weights", 0.01, 0)
        bt = self.const(self.rng.randint(-1000, 1000, size=(out_ch,)), DataType.int32, "tc_bias", 0.0005, 0)
        out = self.tensor([n, oh, ow, out_ch], x.dtype, "tconv_out", scale)
        attrs = {"padding": padding, "stride_h": stride[0], "stride_w": stride[1]}
        return self._op(Op.Conv2DBackpropInput, [os_t, wt, x, bt], out, attrs, "tconv")

    def build(self, outputs):
        nng = Graph("model")
        sg = Subgraph("main")
        sg.passes = [_Pass(self.ops)]
        sg.original_inputs = list(self.inputs)
        sg.input_tensors = list(self.inputs)
        sg.output_tensors = list(outputs)
        nng.subgraphs.append(sg)
        return bytes(write_tflite_buffer(nng))


# ---------------------------------------------------------------------------------------------------------------------
# independent oracle: command stream decoder + extent check
# ---------------------------------------------------------------------------------------------------------------------
"""Independent C02 oracle: decodes the Ethos-U command stream(s) of a Vela output .tflite and checks every memory
access against the extents of the flash / scratch / scratch_fast tensors that the file publishes."""
import struct

from ethosu.vela.tflite import Model as _Model

# ---- opcode tables (Ethos-U55/U65 command stream specification) ----
C0 = {
    0x000: "OP_STOP", 0x001: "OP_IRQ", 0x002: "OP_CONV", 0x003: "OP_DEPTHWISE", 0x005: "OP_POOL",
    0x006: "OP_ELEMENTWISE", 0x010: "OP_DMA_START", 0x011: "OP_DMA_WAIT", 0x012: "OP_KERNEL_WAIT",
    0x100: "IFM_PAD_TOP", 0x101: "IFM_PAD_LEFT", 0x102: "IFM_PAD_RIGHT", 0x103: "IFM_PAD_BOTTOM",
    0x104: "IFM_DEPTH_M1", 0x105: "IFM_PRECISION", 0x107: "IFM_UPSCALE", 0x10A: "IFM_WIDTH0_M1",
    0x10B: "IFM_HEIGHT0_M1", 0x10C: "IFM_HEIGHT1_M1", 0x10F: "IFM_REGION",
    0x111: "OFM_WIDTH_M1", 0x112: "OFM_HEIGHT_M1", 0x113: "OFM_DEPTH_M1", 0x114: "OFM_PRECISION",
    0x11A: "OFM_WIDTH0_M1", 0x11B: "OFM_HEIGHT0_M1", 0x11C: "OFM_HEIGHT1_M1", 0x11F: "OFM_REGION",
    0x120: "KERNEL_WIDTH_M1", 0x121: "KERNEL_HEIGHT_M1", 0x122: "KERNEL_STRIDE", 0x123: "PARALLEL_MODE",
    0x125: "ACTIVATION", 0x128: "WEIGHT_REGION", 0x129: "SCALE_REGION",
    0x130: "DMA0_SRC_REGION", 0x131: "DMA0_DST_REGION",
    0x180: "IFM2_BROADCAST", 0x185: "IFM2_PRECISION", 0x18A: "IFM2_WIDTH0_M1", 0x18B: "IFM2_HEIGHT0_M1",
    0x18C: "IFM2_HEIGHT1_M1", 0x18F: "IFM2_REGION",
}
C1 = {
    0x000: "IFM_BASE0", 0x001: "IFM_BASE1", 0x002: "IFM_BASE2", 0x003: "IFM_BASE3",
    0x004: "IFM_STRIDE_X", 0x005: "IFM_STRIDE_Y", 0x006: "IFM_STRIDE_C",
    0x010: "OFM_BASE0", 0x011: "OFM_BASE1", 0x012: "OFM_BASE2", 0x013: "OFM_BASE3",
    0x014: "OFM_STRIDE_X", 0x015: "OFM_STRIDE_Y", 0x016: "OFM_STRIDE_C",
    0x020: "WEIGHT_BASE", 0x021: "WEIGHT_LENGTH", 0x022: "SCALE_BASE", 0x023: "SCALE_LENGTH",
    0x030: "DMA0_SRC", 0x031: "DMA0_DST", 0x032: "DMA0_LEN",
    0x080: "IFM2_BASE0", 0x081: "IFM2_BASE1", 0x082: "IFM2_BASE2", 0x083: "IFM2_BASE3",
    0x084: "IFM2_STRIDE_X", 0x085: "IFM2_STRIDE_Y", 0x086: "IFM2_STRIDE_C",
    0x090: "WEIGHT1_BASE", 0x091: "WEIGHT1_LENGTH", 0x092: "SCALE1_BASE", 0x093: "SCALE1_LENGTH",
}
ADDR_REGS = {n for n in C1.values() if "BASE" in n or "STRIDE" in n or n in ("DMA0_SRC", "DMA0_DST", "DMA0_LEN")}


class Access:
    def __init__(self, op_index, kind, what, region, start, end, write):
        self.op_index, self.kind, self.what, self.region = op_index, kind, what, region
        self.start, self.end, self.write = start, end, write

    def __repr__(self):
        rw = "W" if self.write else "R"
        return f"op#{self.op_index} {self.kind} {self.what} {rw} region={self.region} [{self.start:#x},{self.end:#x})"


def _ceil_div(a, b):
    return -(-a // b)


def _fm_accesses(r, pfx, H, W, C, elem, nhcwb16):
    """Hull per tile of a H x W x C feature map box described by the <pfx>_* registers"""
    bases = [r[f"{pfx}_BASE{i}"] for i in range(4)]
    sx, sy, sc = r[f"{pfx}_STRIDE_X"], r[f"{pfx}_STRIDE_Y"], r[f"{pfx}_STRIDE_C"]
    w0 = r[f"{pfx}_WIDTH0_M1"] + 1
    h0 = r[f"{pfx}_HEIGHT0_M1"] + 1
    h1 = r[f"{pfx}_HEIGHT1_M1"] + 1

    def addr(base, y, x, c):
        if nhcwb16:
            return base + y * sy + x * 16 * elem + (c // 16) * sc + (c % 16) * elem
        return base + y * sy + x * sx + c * elem

    tiles = []
    tiles.append((0, min(H, h0), min(W, w0)))
    if W > w0:
        tiles.append((1, min(H, h1), W - w0))
    if H > h0:
        tiles.append((2, H - h0, min(W, w0)))
    if W > w0 and H > h1:
        tiles.append((3, H - h1, W - w0))
    res = []
    for t, th, tw in tiles:
        if th <= 0 or tw <= 0:
            continue
        lo = addr(bases[t], 0, 0, 0)
        hi = addr(bases[t], th - 1, tw - 1, C - 1) + elem
        res.append((t, lo, hi))
    return res


def decode_accesses(words):
    """words: list of 32-bit command stream words. Returns (accesses, ops) """
    r = {}
    r.setdefault("PARALLEL_MODE", 0)
    acc = []
    ops = []
    i = 0
    op_index = 0
    n = len(words)
    while i < n:
        w = words[i]
        code = w & 0x3FF
        mode = (w >> 14) & 3
        param = (w >> 16) & 0xFFFF
        if mode == 0:
            name = C0.get(code)
            i += 1
            if name is None:
                continue
            if not name.startswith("OP_"):
                r[name] = param
                continue
            if name == "OP_STOP":
                break
            if name in ("OP_DMA_WAIT", "OP_KERNEL_WAIT", "OP_IRQ"):
                continue
            if name == "OP_DMA_START":
                ln = r["DMA0_LEN"]
                acc.append(Access(op_index, "DMA", "src", r["DMA0_SRC_REGION"], r["DMA0_SRC"], r["DMA0_SRC"] + ln, False))
                acc.append(Access(op_index, "DMA", "dst", r["DMA0_DST_REGION"], r["DMA0_DST"], r["DMA0_DST"] + ln, True))
                ops.append((op_index, "DMA"))
                op_index += 1
                continue
            kind = name[3:]
            ops.append((op_index, kind))
            # ---- OFM
            oprec = r["OFM_PRECISION"]
            oelem = 1 << ((oprec >> 1) & 3)
            onhcwb16 = ((oprec >> 6) & 3) == 1
            OH, OW, OC = r["OFM_HEIGHT_M1"] + 1, r["OFM_WIDTH_M1"] + 1, r["OFM_DEPTH_M1"] + 1
            for t, lo, hi in _fm_accesses(r, "OFM", OH, OW, OC, oelem, onhcwb16):
                acc.append(Access(op_index, kind, f"OFM tile{t}", r["OFM_REGION"], lo, hi, True))
            # ---- IFM
            iprec = r["IFM_PRECISION"]
            ielem = 1 << ((iprec >> 2) & 3)
            inhcwb16 = ((iprec >> 6) & 3) == 1
            IC = r["IFM_DEPTH_M1"] + 1
            if kind == "ELEMENTWISE":
                IH, IW = OH, OW
                IC = OC
            else:
                ks = r["KERNEL_STRIDE"]
                sx = ((ks & 1) | (((ks >> 6) & 7) << 1)) + 1
                sy = (((ks >> 1) & 1) | (((ks >> 9) & 7) << 1)) + 1
                kh = r["KERNEL_HEIGHT_M1"] + 1  # dilated
                kw = r["KERNEL_WIDTH_M1"] + 1
                IH = (OH - 1) * sy + kh - r.get("IFM_PAD_TOP", 0) - r.get("IFM_PAD_BOTTOM", 0)
                IW = (OW - 1) * sx + kw - r.get("IFM_PAD_LEFT", 0) - r.get("IFM_PAD_RIGHT", 0)
                if r.get("IFM_UPSCALE", 0) != 0:
                    IH = _ceil_div(IH, 2)
                    IW = _ceil_div(IW, 2)
                if kind in ("DEPTHWISE", "POOL") and not (kind == "POOL" and param == 2):
                    IC = OC
            if IH > 0 and IW > 0:
                for t, lo, hi in _fm_accesses(r, "IFM", IH, IW, IC, ielem, inhcwb16):
                    acc.append(Access(op_index, kind, f"IFM tile{t} ({IH}x{IW}x{IC})", r["IFM_REGION"], lo, hi, False))
            # ---- IFM2
            if kind == "ELEMENTWISE" and param not in (5, 6, 7):  # not LRELU/ABS/CLZ
                bc = r.get("IFM2_BROADCAST", 0)
                if not (bc & 0x80):
                    p2 = r["IFM2_PRECISION"]
                    e2 = 1 << ((p2 >> 2) & 3)
                    n2 = ((p2 >> 6) & 3) == 1
                    H2 = 1 if bc & 1 else OH
                    W2 = 1 if bc & 2 else OW
                    C2 = 1 if bc & 4 else OC
                    for t, lo, hi in _fm_accesses(r, "IFM2", H2, W2, C2, e2, n2):
                        acc.append(Access(op_index, kind, f"IFM2 tile{t} ({H2}x{W2}x{C2})", r["IFM2_REGION"], lo, hi, False))
            # ---- weights / scales
            if kind in ("CONV", "DEPTHWISE"):
                ncores = r["PARALLEL_MODE"] + 1
                for core, sfx in enumerate(["", "1"][:ncores]):
                    ln = r.get(f"WEIGHT{sfx}_LENGTH", 0)
                    if ln:
                        b = r[f"WEIGHT{sfx}_BASE"]
                        acc.append(Access(op_index, kind, f"weights core{core}", r["WEIGHT_REGION"], b, b + ln, False))
                    ln = r.get(f"SCALE{sfx}_LENGTH", 0)
                    if ln:
                        b = r[f"SCALE{sfx}_BASE"]
                        acc.append(Access(op_index, kind, f"scales core{core}", r["SCALE_REGION"], b, b + ln, False))
            op_index += 1
        else:
            payload = words[i + 1]
            i += 2
            name = C1.get(code)
            if name is None:
                continue
            if name in ADDR_REGS:
                r[name] = payload | (param << 32)
            else:
                r[name] = payload
    return acc, ops


def split_payload(data):
    """data: bytes of the command stream tensor (driver actions). Returns (words, config_word)"""
    words = list(struct.unpack(f"<{len(data) // 4}I", data))
    assert words[0] == struct.unpack("<I", b"COP1")[0], "no COP1 header"
    i = 1
    cfg = None
    while i < len(words):
        tag = words[i] & 0xFF
        if tag == 0x01:  # config
            cfg = words[i + 1]
            i += 3
        elif tag == 0x05:  # nop
            i += 1
        elif tag == 0x02:  # command stream
            length = ((words[i] >> 8) & 0xFF) << 16 | (words[i] >> 16)
            return words[i + 1 : i + 1 + length], cfg
        else:
            raise AssertionError(f"unexpected driver action {tag}")
    raise AssertionError("no command stream")


class NpuOpInfo:
    pass


def read_npu_ops(tflite_bytes):
    buf = bytearray(tflite_bytes)
    model = _Model.Model.GetRootAsModel(buf, 0)
    res = []
    for sgi in range(model.SubgraphsLength()):
        sg = model.Subgraphs(sgi)
        for oi in range(sg.OperatorsLength()):
            op = sg.Operators(oi)
            oc = model.OperatorCodes(op.OpcodeIndex())
            if oc.CustomCode() != b"ethos-u":
                continue

            def tens_info(idx):
                t = sg.Tensors(idx)
                shape = [t.Shape(k) for k in range(t.ShapeLength())]
                b = model.Buffers(t.Buffer())
                data = b.DataAsNumpy() if b.DataLength() else None
                return t.Name().decode(), shape, data

            info = NpuOpInfo()
            info.cmd = tens_info(op.Inputs(0))
            info.flash = tens_info(op.Inputs(1))
            info.scratch = tens_info(op.Inputs(2))
            info.scratch_fast = tens_info(op.Inputs(3))
            info.n_inputs = op.InputsLength()
            res.append(info)
    return res


MEM2MEM = 0x103


def check_tflite(tflite_bytes, spilling, arena_cache_size=None, shram_bytes=None, verbose=False):
    """Returns list of violation strings (empty = property holds for this file)"""
    violations = []
    ops = read_npu_ops(tflite_bytes)
    stats = {"npu_ops": len(ops), "accesses": 0, "cmds": 0}
    for k, info in enumerate(ops):
        words, cfg = split_payload(info.cmd[2].tobytes())
        flash_size = 0 if info.flash[2] is None else len(info.flash[2])
        if flash_size != info.flash[1][0] and not (flash_size == 0 and info.flash[1][0] == 0):
            violations.append(f"npu op {k}: flash tensor shape {info.flash[1]} != buffer size {flash_size}")
        scratch_size = info.scratch[1][0]
        fast_size = info.scratch_fast[1][0]
        shram = shram_bytes
        if shram is None:
            shram = ((cfg >> 8) & 0xFF) * 1024  # config_r.shram_size in KB (all cores)
            if (cfg >> 28) == 1 and (cfg & 0xF) == 9:
                shram //= 2  # Ethos-U65-512 has two cores
        limits = {0: flash_size, 1: scratch_size, 2: fast_size, MEM2MEM: shram}
        if spilling and arena_cache_size is not None and fast_size > arena_cache_size:
            violations.append(
                f"npu op {k}: published scratch_fast tensor is {fast_size} bytes > arena cache size {arena_cache_size}"
            )
        accesses, oplist = decode_accesses(words)
        stats["accesses"] += len(accesses)
        stats["cmds"] += len(oplist)
        for a in accesses:
            if verbose:
                print("   ", a)
            if a.region not in limits:
                violations.append(f"npu op {k}: {a}: region is not one of the declared ones")
                continue
            if a.region == 2 and not spilling:
                violations.append(f"npu op {k}: {a}: fast scratch region used without a dedicated SRAM")
            if a.write and a.region == 0:
                violations.append(f"npu op {k}: {a}: WRITE to the read-only constants region")
            if a.start < 0 or a.end > limits[a.region]:
                violations.append(f"npu op {k}: {a}: outside the region extent of {limits[a.region]} bytes")
    return violations, stats


# ---------------------------------------------------------------------------------------------------------------------
# compile helper: runs the real top-level driver (ethosu.vela.vela.main) on an in-memory model
# ---------------------------------------------------------------------------------------------------------------------
def compile_model(model_bytes, extra_args=()):
    from ethosu.vela import vela

    d = tempfile.mkdtemp(prefix="c02_")
    try:
        src = os.path.join(d, "m.tflite")
        with open(src, "wb") as f:
            f.write(model_bytes)
        args = [src, "--output-dir", os.path.join(d, "out")] + list(extra_args)
        out = io.StringIO()
        sys.stdout.flush()
        saved = os.dup(1)
        logf = os.path.join(d, "log.txt")
        fd = os.open(logf, os.O_WRONLY | os.O_CREAT | os.O_TRUNC)
        os.dup2(fd, 1)
        try:
            with contextlib.redirect_stdout(out):
                rc = vela.main(args)
        finally:
            sys.stdout.flush()
            os.dup2(saved, 1)
            os.close(fd)
            os.close(saved)
        log = out.getvalue() + open(logf).read()
        if rc != 0:
            raise RuntimeError("vela failed: " + log[-2000:])
        with open(os.path.join(d, "out", "m_vela.tflite"), "rb") as f:
            return f.read(), log
    finally:
        shutil.rmtree(d, ignore_errors=True)


def config_args(accel, sys_cfg=None, mem_mode=None, extra=()):
    a = ["--accelerator-config", accel]
    if sys_cfg or mem_mode:
        a += ["--config", "Arm/vela.ini"]
    if sys_cfg:
        a += ["--system-config", sys_cfg]
    if mem_mode:
        a += ["--memory-mode", mem_mode]
    return a + list(extra)


def run_cases(cases):
    """cases: list of (name, model_bytes, vela args, spilling, arena_cache_size). Exits 0/1"""
    failures = []
    for name, model_bytes, args, spilling, acs in cases:
        try:
            out, _ = compile_model(model_bytes, args)
        except Exception as e:  # a refusal to compile is not a violation of C02
            print(f"  [{name}] compilation refused/failed: {str(e).strip().splitlines()[-1][:160]}")
            continue
        violations, stats = check_tflite(out, spilling, acs)
        print(f"  [{name}] {stats['cmds']} NPU commands, {stats['accesses']} memory accesses checked:"
              f" {len(violations)} violation(s)")
        for v in violations[:5]:
            print("      " + v)
        if violations:
            failures.append(name)
    if failures:
        print("FAIL: memory accesses outside the extents published in the output file for: " + ", ".join(failures))
        sys.exit(1)
    print("PASS")
    sys.exit(0)


INI = """
[System_Config.My_U65]
core_clock=1e9
axi0_port=Sram
axi1_port=Dram
Sram_clock_scale=1.0
Sram_burst_length=32
Sram_read_latency=32
Sram_write_latency=32
Dram_clock_scale=0.234375
Dram_burst_length=128
Dram_read_latency=500
Dram_write_latency=250

[Memory_Mode.Dedicated_Sram_64KB]
const_mem_area=Axi1
arena_mem_area=Axi1
cache_mem_area=Axi0
arena_cache_size=65536
"""


def conv_chain(h=96, w=96, c=16, n=5, oc=32):
    m = MB()
    y = m.input([1, h, w, c])
    for i in range(n):
        y = m.conv2d(y, oc, k=(3, 3), act=Op.Relu if i % 2 == 0 else None)
    return m.build([y])


if __name__ == "__main__":
    d = tempfile.mkdtemp(prefix="c02_obs_")
    ini = os.path.join(d, "small.ini")
    with open(ini, "w") as f:
        f.write(INI)
    args = ["--accelerator-config", "ethos-u65-256", "--config", ini, "--system-config", "My_U65",
            "--memory-mode", "Dedicated_Sram_64KB", "--verbose-config"]
    out, log = compile_model(conv_chain(), args)
    shutil.rmtree(d, ignore_errors=True)
    for line in log.splitlines():
        if "arena_cache_size" in line:
            print("  vela says:", line.strip())
    violations, stats = check_tflite(out, True, 65536)
    info = read_npu_ops(out)[0]
    print(f"  configured arena_cache_size (config file) = 65536, published scratch_fast tensor = {info.scratch_fast[1][0]} bytes")
    for v in violations[:5]:
        print("      " + v)
    if violations:
        print("FAIL: the published fast-scratch extent exceeds the arena cache size configured in the memory mode")
        sys.exit(1)
    print("PASS")

"""
Observation 3 (unmodified tree): 1x1 AVERAGE pool used as a requantisation (no padding, IFM scale slightly smaller
than OFM scale).  For rescale = ifm_scale/ofm_scale in (1 - 2^-33, 1) generate_ofm_scaling_for_pooling computes
scale = round((2^32 + 1) * rescale) >= 2^32, which does not fit NPU_SET_OFM_SCALE and is truncated by
cmd1_with_offset (offset & 0xFFFFFFFF) to 0 or 1: the operation then multiplies by ~2^-32 instead of ~1.
It needs scales given in double precision (two float32 values can never be that close); the API takes Python
floats.

Run: cd /tmp/seed6/C06 && /venv/bin/python out/observation3.py
"""
from obs_common import fm, regs_at_ops

from ethosu.vela.api import npu_generate_register_command_stream, NpuAccelerator, NpuDataType, NpuKernel, NpuPadding
from ethosu.vela.api import NpuPoolingOp, NpuPoolingOperation, NpuShape3D

bad = 0
for s_in, s_out in [(0.1, 0.1000001), (0.1, 0.1000000000001), (0.5, 0.5000000001), (1.0, 1.0000000001)]:
    op = NpuPoolingOperation(NpuPoolingOp.AVERAGE)
    op.ifm, op.ofm = fm(0, NpuDataType.INT8, s_in), fm(0x1000, NpuDataType.INT8, s_out)
    op.kernel = NpuKernel(1, 1)
    op.padding = NpuPadding(top=0, left=0, bottom=0, right=0)
    op.block_config = NpuShape3D(height=2, width=2, depth=16)
    stream = npu_generate_register_command_stream([op], NpuAccelerator.Ethos_U55_128)
    ((_, regs),) = regs_at_ops(stream)
    shift, scale = regs["OFM_SCALE"]
    represented = scale * 2.0 ** -shift
    ok = abs(represented - s_in / s_out) < 1e-6
    bad += not ok
    print(f"AVERAGE 1x1 {s_in}/{s_out}: OFM_SCALE scale={scale} shift={shift} = {represented:.3g}, wanted "
          f"{s_in / s_out:.12f} -> {'ok' if ok else 'WRONG (32-bit overflow)'}")
print("violations:", bad)

"""
Observation 4 (unmodified tree), two small ones:
 a) UINT16 OFM (a supported NpuDataType) without any activation: generate_activation clamps the maximum to the
    int16 maximum, so NPU_SET_ACTIVATION_MAX = 32767 although the operation asked for no clamping (0..65535).
 b) NpuTileBox.height_1 = 0 is the documented value for an unused tile 1 ("0 if unused"); generate_tiles writes
    height_1 - 1 = -1, truncated to 0xFFFF, into xFM_HEIGHT1_M1 (decodes as a tile height of 65536, not 0).

Run: cd /tmp/seed6/C06 && /venv/bin/python out/observation4.py
"""
from obs_common import fm, regs_at_ops

from ethosu.vela.api import npu_generate_register_command_stream, NpuAccelerator, NpuDataType, NpuKernel, NpuPadding
from ethosu.vela.api import NpuPoolingOp, NpuPoolingOperation, NpuShape3D


def pool(ifm, ofm):
    op = NpuPoolingOperation(NpuPoolingOp.MAX)
    op.ifm, op.ofm = ifm, ofm
    op.kernel = NpuKernel(1, 1)
    op.padding = NpuPadding(top=0, left=0, bottom=0, right=0)
    op.block_config = NpuShape3D(height=2, width=2, depth=16)
    return op


op = pool(fm(0, NpuDataType.UINT16, 1.0), fm(0x1000, NpuDataType.UINT16, 1.0))
((_, regs),) = regs_at_ops(npu_generate_register_command_stream([op], NpuAccelerator.Ethos_U55_128))
print(f"a) MAX pool uint16, no activation: ACTIVATION_MIN={regs['ACTIVATION_MIN']} ACTIVATION_MAX={regs['ACTIVATION_MAX']}"
      f" (uint16 range is 0..65535)")
op = pool(fm(0, NpuDataType.INT8, 1.0, height_1=0), fm(0x1000, NpuDataType.INT8, 1.0, height_1=0))
((_, regs),) = regs_at_ops(npu_generate_register_command_stream([op], NpuAccelerator.Ethos_U55_128))
print(f"b) single tile, height_1=0 as documented: IFM_HEIGHT1_M1={regs['IFM_HEIGHT1_M1']:#x} "
      f"OFM_HEIGHT1_M1={regs['OFM_HEIGHT1_M1']:#x} (-1 truncated to 16 bits)")

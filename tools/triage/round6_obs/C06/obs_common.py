"""Helpers shared by the observation reproducers (decoder with register tracking, feature map builder)."""
import os
import sys

sys.path.insert(0, os.getcwd())

from ethosu.vela.api import NpuFeatureMap  # noqa: E402
from ethosu.vela.api import NpuLayout  # noqa: E402
from ethosu.vela.api import NpuQuantization  # noqa: E402
from ethosu.vela.api import NpuShape3D  # noqa: E402
from ethosu.vela.api import NpuTileBox  # noqa: E402

CMD0 = {0x126: "ACTIVATION_MIN", 0x127: "ACTIVATION_MAX", 0x181: "IFM2_SCALAR", 0x10C: "IFM_HEIGHT1_M1",
        0x11C: "OFM_HEIGHT1_M1", 0x10B: "IFM_HEIGHT0_M1"}
CMD1 = {0x024: "OFM_SCALE"}
OPS = {0x002: "NPU_OP_CONV", 0x003: "NPU_OP_DEPTHWISE", 0x005: "NPU_OP_POOL", 0x006: "NPU_OP_ELEMENTWISE"}


def regs_at_ops(stream):
    regs, res, i = {}, [], 0
    while i < len(stream):
        w = stream[i]
        if w & 0x4000:
            if (w & 0x3FF) in CMD1:
                regs[CMD1[w & 0x3FF]] = (w >> 16, stream[i + 1])
            i += 2
        else:
            if (w & 0x3FF) in OPS:
                res.append((OPS[w & 0x3FF], dict(regs)))
            elif (w & 0x3FF) in CMD0:
                regs[CMD0[w & 0x3FF]] = w >> 16
            i += 1
    return res


def fm(address, dtype, scale, zero_point=0, shape=NpuShape3D(height=8, width=8, depth=16), height_1=None):
    f = NpuFeatureMap()
    f.data_type = dtype
    f.shape = shape
    f.tiles = NpuTileBox(height_0=shape.height, height_1=shape.height if height_1 is None else height_1,
                         width_0=shape.width, addresses=[address, 0, 0, 0])
    f.region = 1
    f.layout = NpuLayout.NHWC
    f.quantization = NpuQuantization(scale_f32=scale, zero_point=zero_point)
    return f


def s16(v):
    return v - 65536 if v >= 32768 else v

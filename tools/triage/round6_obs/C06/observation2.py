"""
Observation 2 (unmodified tree): an INT32 IFM2 scalar whose quantised value needs more than 16 bits passes the
range assert in generate_elementwise_op (which tests against the int32 range) and is then silently truncated to
16 bits by cmd0_with_param when NPU_SET_IFM2_SCALAR is written.

Run: cd /tmp/seed6/C06 && /venv/bin/python out/observation2.py
"""
from obs_common import fm, regs_at_ops

from ethosu.vela.api import npu_generate_register_command_stream, NpuAccelerator, NpuDataType, NpuElementWiseOp
from ethosu.vela.api import NpuElementWiseOperation, NpuFeatureMap, NpuQuantization, NpuShape3D

bad = 0
for scalar in (1000, 70000, -40000, 1 << 20):
    op = NpuElementWiseOperation(NpuElementWiseOp.ADD)
    op.ifm, op.ofm = fm(0, NpuDataType.INT32, None), fm(0x2000, NpuDataType.INT32, None)
    op.ifm2 = NpuFeatureMap()
    op.ifm2.data_type = NpuDataType.INT32
    op.ifm2.quantization = NpuQuantization(scale_f32=None, zero_point=0)
    op.ifm2_scalar = scalar
    op.block_config = NpuShape3D(height=2, width=2, depth=16)
    stream = npu_generate_register_command_stream([op], NpuAccelerator.Ethos_U55_128)
    ((_, regs),) = regs_at_ops(stream)
    got = regs["IFM2_SCALAR"]
    fits = -32768 <= scalar <= 65535
    ok = fits and got == (scalar & 0xFFFF)
    bad += not ok
    print(f"ADD int32, ifm2_scalar={scalar}: NPU_SET_IFM2_SCALAR={got} -> {'ok' if ok else 'TRUNCATED, no error raised'}")
print("violations:", bad)

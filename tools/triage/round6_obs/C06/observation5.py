"""
Observation 5 (unmodified tree, low severity - needs absurd scale ratios): AVERAGE pool whose IFM/OFM scale ratio
approaches or exceeds 2^31.  generate_ofm_scaling_for_pooling reserves so many bits for the rescale that the base
pooling scale has only 1-2 significant bits (kernel 3x4: (2^3 + 2^4) // 12 = 2), so the OFM_SCALE written is off by
a factor of up to 3 from ifm_scale / ofm_scale / (kh * kw); for ratios above ~4.3e9 the product no longer fits the
32-bit payload and is truncated by cmd1_with_offset.  (Ratios >= 2^32 with other kernels raise
"ValueError: negative shift count" instead.)

Run: cd /tmp/seed6/C06 && /venv/bin/python out/observation5.py
"""
from obs_common import fm, regs_at_ops

from ethosu.vela.api import npu_generate_register_command_stream, NpuAccelerator, NpuDataType, NpuKernel, NpuPadding
from ethosu.vela.api import NpuPoolingOp, NpuPoolingOperation, NpuShape3D

bad = 0
for (kw, kh), s_in, s_out in [((3, 4), 0.2, 1e-4), ((3, 4), 0.2, 1e-9), ((3, 4), 0.20392157, 1e-10), ((2, 12), 1e9, 0.20392157)]:
    op = NpuPoolingOperation(NpuPoolingOp.AVERAGE)
    op.ifm = fm(0, NpuDataType.INT8, s_in, shape=NpuShape3D(height=16, width=16, depth=16))
    op.ofm = fm(0x2000, NpuDataType.INT8, s_out, shape=NpuShape3D(height=16 - kh + 1, width=16 - kw + 1, depth=16))
    op.kernel = NpuKernel(kw, kh)
    op.padding = NpuPadding(top=0, left=0, bottom=0, right=0)
    op.block_config = NpuShape3D(height=2, width=2, depth=16)
    stream = npu_generate_register_command_stream([op], NpuAccelerator.Ethos_U55_128)
    ((_, regs),) = regs_at_ops(stream)
    shift, scale = regs["OFM_SCALE"]
    represented, wanted = scale * 2.0 ** -shift, s_in / s_out / (kw * kh)
    ok = abs(represented - wanted) <= 1e-3 * wanted
    bad += not ok
    print(f"AVERAGE {kw}x{kh}, scales {s_in}/{s_out}: OFM_SCALE scale={scale} shift={shift} = {represented:.6g}, "
          f"wanted {wanted:.6g} -> {'ok' if ok else 'WRONG'}")
print("violations:", bad)

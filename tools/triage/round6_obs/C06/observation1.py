"""
Observation 1 (unmodified tree): generate_activation clamps the quantised activation minimum only from below and
the maximum only from above.  When the requested clamp lies completely above (below) the representable OFM range
the quantised minimum (maximum) is written unclamped: it exceeds the OFM data type and, beyond 16 bits, is
silently truncated by cmd0_with_param (param & 0xFFFF).

Run: cd /tmp/seed6/C06 && /venv/bin/python out/observation1.py
"""
from obs_common import fm, regs_at_ops, s16

from ethosu.vela.api import npu_generate_register_command_stream, NpuAccelerator, NpuActivation, NpuActivationOp
from ethosu.vela.api import NpuDataType, NpuKernel, NpuPadding, NpuPoolingOp, NpuPoolingOperation, NpuShape3D


def pool(dtype, ofm_scale, ofm_zp, act_min, act_max):
    op = NpuPoolingOperation(NpuPoolingOp.MAX)
    op.ifm, op.ofm = fm(0, dtype, 1.0), fm(0x1000, dtype, ofm_scale, ofm_zp)
    op.kernel = NpuKernel(1, 1)
    op.padding = NpuPadding(top=0, left=0, bottom=0, right=0)
    op.activation = NpuActivation(NpuActivationOp.NONE_OR_RELU)
    op.activation.min, op.activation.max = act_min, act_max
    op.block_config = NpuShape3D(height=2, width=2, depth=16)
    return op


bad = 0
for title, op in [
    ("uint8 OFM scale 0.01 (represents 0..2.55), clamp [3.0, 6.0]", pool(NpuDataType.UINT8, 0.01, 0, 3.0, 6.0)),
    ("int16 OFM scale 1e-5 (represents +-0.32767), clamp [0.5, 1.0]", pool(NpuDataType.INT16, 1e-5, 0, 0.5, 1.0)),
    ("int16 OFM scale 1e-5, clamp [0.7, 1.0]", pool(NpuDataType.INT16, 1e-5, 0, 0.7, 1.0)),
    ("int8 OFM scale 0.001 zp 0, clamp [-1.0, -0.5]", pool(NpuDataType.INT8, 0.001, 0, -1.0, -0.5)),
    ("int8 OFM scale 1e-6 zp 0, clamp [-1.0, -0.5]", pool(NpuDataType.INT8, 1e-6, 0, -1.0, -0.5)),
]:
    stream = npu_generate_register_command_stream([op], NpuAccelerator.Ethos_U55_128)
    ((_, regs),) = regs_at_ops(stream)
    dt = op.ofm.data_type
    lo, hi = dt.min_value(), dt.max_value()
    amin, amax = regs["ACTIVATION_MIN"], regs["ACTIVATION_MAX"]
    if dt.is_signed():
        amin, amax = s16(amin), s16(amax)
    q = op.ofm.quantization
    want_min = min(max(round(op.activation.min / q.scale_f32) + q.zero_point, lo), hi)
    want_max = min(max(round(op.activation.max / q.scale_f32) + q.zero_point, lo), hi)
    ok = (amin, amax) == (want_min, want_max)
    bad += not ok
    print(f"{title}: ACTIVATION_MIN={amin} ACTIVATION_MAX={amax} (OFM range {lo}..{hi}, saturated clamp would be "
          f"{want_min}..{want_max}) -> {'ok' if ok else 'WRONG'}")
print("violations:", bad)

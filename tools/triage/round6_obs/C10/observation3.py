"""Observation 3 (UNMODIFIED tree; not a C10 violation, a compiler crash found on the way): RESIZE_NEAREST_NEIGHBOR with
align_corners=True and an output of 2*IFM-1 crashes the graph optimiser for every IFM depth > 1:
convert_resizenn_ac_to_depthwise_conv() builds upscale_factor^2 weight values but reshapes them to
[upscale_factor, upscale_factor, depth, depth] ("cannot reshape array of size 4 into shape (2,2,16,16)").
Exit status 1 = crash reproduced.
"""
import contextlib
import io
import os
import sys

sys.path.insert(0, os.getcwd())

import numpy as np

from ethosu.vela import architecture_features
from ethosu.vela import compiler_driver
from ethosu.vela import high_level_command_to_npu_op as hl2npu
from ethosu.vela import model_reader
from ethosu.vela import scheduler
from ethosu.vela import tflite_writer
from ethosu.vela.data_type import DataType
from ethosu.vela.debug_database import DebugDatabase
from ethosu.vela.high_level_command_stream import Box
from ethosu.vela.high_level_command_stream import NpuStripe
from ethosu.vela.nn_graph import Graph
from ethosu.vela.nn_graph import Pass
from ethosu.vela.nn_graph import PassPlacement
from ethosu.vela.nn_graph import Subgraph
from ethosu.vela.nn_graph import TensorAllocator
from ethosu.vela.operation import NpuBlockType
from ethosu.vela.operation import Op
from ethosu.vela.operation import Operation
from ethosu.vela.operation import Kernel
from ethosu.vela.operation import Padding
from ethosu.vela.tensor import create_const_tensor
from ethosu.vela.tensor import QuantizationParameters
from ethosu.vela.tensor import Tensor
from ethosu.vela.tensor import TensorAddressMap
from ethosu.vela.tensor import TensorSubPurpose
from ethosu.vela.shape4d import Shape4D
from ethosu.vela.tflite_graph_optimiser import calc_padding_and_skirt
from ethosu.vela.weight_compressor import CompressedWeightCache

rng = np.random.RandomState(1)
counter = [0]


def quant(scale):
    q = QuantizationParameters()
    q.scale_f32 = np.float32(scale)
    q.zero_point = np.int64(0)
    q.quant_min = -128
    q.quant_max = 127
    return q


def feature_map(shape, name):
    t = Tensor(list(shape), DataType.int8, name)
    t.quantization = quant(0.05)
    return t


def conv(ops, x, oc, k, s, d, padding):
    counter[0] += 1
    n = counter[0]
    _, h, w, c = x.shape
    ekh, ekw = (k[0] - 1) * d[0] + 1, (k[1] - 1) * d[1] + 1
    if padding == Padding.SAME:
        oh, ow = -(-h // s[0]), -(-w // s[1])
    else:
        oh, ow = (h - ekh) // s[0] + 1, (w - ekw) // s[1] + 1
    wt = create_const_tensor(
        f"w{n}", [oc, k[0], k[1], c], DataType.int8, rng.randint(-20, 20, [oc, k[0], k[1], c]).astype(np.int8), quantization=quant(0.02)
    )
    b = create_const_tensor(f"b{n}", [oc], DataType.int32, rng.randint(-99, 99, [oc]).astype(np.int32), quantization=quant(0.001))
    op = Operation(Op.Conv2DBias, f"conv{n}")
    for t in (x, wt, b):
        op.add_input_tensor(t)
    ofm = feature_map([1, oh, ow, oc], f"fm{n}")
    op.set_output_tensor(ofm)
    op.attrs = {
        "padding": padding,
        "stride_h": s[0],
        "stride_w": s[1],
        "dilation_h_factor": d[0],
        "dilation_w_factor": d[1],
        "fused_activation_function": None,
    }
    ops.append(op)
    return ofm


def build():
    ops = []
    inp = feature_map([1, 8, 8, 16], "input")
    x = conv(ops, inp, 16, (1, 1), (1, 1), (1, 1), Padding.SAME)
    size = create_const_tensor("size", [2], DataType.int32, np.array([15, 15], np.int32))
    op = Operation(Op.ResizeNearestNeighbor, "resize")
    op.add_input_tensor(x)
    op.add_input_tensor(size)
    ofm = feature_map([1, 15, 15, 16], "resized")
    op.set_output_tensor(ofm)
    op.attrs = {"align_corners": True, "half_pixel_centers": False}
    ops.append(op)
    sg = Subgraph("main", PassPlacement.Cpu)
    sg.input_tensors = [inp]
    sg.original_inputs = [inp]
    sg.output_tensors = [ofm]
    ps = Pass("all", PassPlacement.Cpu, False, NpuBlockType.Default)
    ps.ops = ops
    sg.passes = [ps]
    nng = Graph("net")
    nng.subgraphs.append(sg)
    return bytearray(tflite_writer.write_tflite_buffer(nng))


captured = []
orig_generate = hl2npu.generate_command_stream


def capture(npu_op_list, arch, verbose, mem_limits, add_to_dbg_db=None, npu_op_to_cmd=None):
    captured.append((list(npu_op_list), dict(npu_op_to_cmd or {})))
    return orig_generate(npu_op_list, arch, verbose, mem_limits, add_to_dbg_db, npu_op_to_cmd)


def compile_model(data):
    sys.setrecursionlimit(4000)
    DebugDatabase.clean_db()
    TensorAddressMap.clear_address_map()
    CompressedWeightCache.clear()
    AF = architecture_features.ArchitectureFeatures
    arch = AF(
        vela_config_files=None,
        system_config=AF.DEFAULT_CONFIG,
        memory_mode=AF.DEFAULT_CONFIG,
        accelerator_config="ethos-u55-128",
        max_blockdep=AF.MAX_BLOCKDEP,
        verbose_config=False,
        arena_cache_size=None,
    )
    out_dir = os.path.join(os.getcwd(), "out", "scratch")
    os.makedirs(out_dir, exist_ok=True)
    copts = compiler_driver.CompilerOptions(tensor_allocator=TensorAllocator.HillClimb, output_dir=out_dir)
    sopts = scheduler.SchedulerOptions(
        optimization_strategy=scheduler.OptimizationStrategy.Performance, sram_target=arch.arena_cache_size, verbose_schedule=False
    )
    nng, network_type = model_reader.read_tflite_model(data, model_reader.ModelReaderOptions())
    hl2npu.generate_command_stream = capture
    try:
        with contextlib.redirect_stdout(io.StringIO()):
            compiler_driver.compiler_driver(nng, arch, copts, sopts, network_type, os.path.join(out_dir, "obs3"))
    finally:
        hl2npu.generate_command_stream = orig_generate
    return nng


def main():
    try:
        compile_model(build())
    except Exception as e:
        print(f"compilation crashed: {type(e).__name__}: {e}")
        return 1
    print("compiled")
    return 0


if __name__ == "__main__":
    sys.exit(main())

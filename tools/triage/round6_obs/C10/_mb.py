"""Scratch helper (not a deliverable): build small TFLite models with Vela's own classes and compile them."""
import os
import sys

sys.path.insert(0, os.getcwd())
import numpy as np

from ethosu.vela import architecture_features
from ethosu.vela import compiler_driver
from ethosu.vela import model_reader
from ethosu.vela import scheduler
from ethosu.vela import tflite_writer
from ethosu.vela.data_type import DataType
from ethosu.vela.debug_database import DebugDatabase
from ethosu.vela.nn_graph import Graph
from ethosu.vela.nn_graph import Pass
from ethosu.vela.nn_graph import PassPlacement
from ethosu.vela.nn_graph import Subgraph
from ethosu.vela.nn_graph import TensorAllocator
from ethosu.vela.operation import NpuBlockType
from ethosu.vela.operation import Op
from ethosu.vela.operation import Operation
from ethosu.vela.operation import Padding
from ethosu.vela.tensor import create_const_tensor
from ethosu.vela.tensor import QuantizationParameters
from ethosu.vela.tensor import Tensor
from ethosu.vela.tensor import TensorAddressMap
from ethosu.vela.weight_compressor import CompressedWeightCache


def qp(scale=0.05, zp=0):
    q = QuantizationParameters()
    q.scale_f32 = np.float32(scale)
    q.zero_point = np.int64(zp)
    q.quant_min = -128
    q.quant_max = 127
    return q


class Net:
    def __init__(self, ifm_shape, seed=0):
        self.rng = np.random.RandomState(seed)
        self.ops = []
        self.n = 0
        self.inp = self.fm(ifm_shape, "input")
        self.cur = self.inp

    def fm(self, shape, name=None):
        self.n += 1
        t = Tensor(list(shape), DataType.int8, name or f"t{self.n}")
        t.quantization = qp(0.05, 0)
        return t

    def const(self, shape, dtype=DataType.int8, scale=0.02, lo=-20, hi=20, name=None):
        self.n += 1
        vals = self.rng.randint(lo, hi, size=shape)
        npdt = {DataType.int8: np.int8, DataType.int32: np.int32}[dtype]
        t = create_const_tensor(name or f"c{self.n}", list(shape), dtype, vals.astype(npdt), quantization=qp(scale, 0))
        return t

    def _add(self, optype, inputs, out_shape, attrs, name=None):
        self.n += 1
        op = Operation(optype, name or f"op{self.n}_{optype.name}")
        for i in inputs:
            op.add_input_tensor(i)
        ofm = self.fm(out_shape)
        op.set_output_tensor(ofm)
        op.attrs = attrs
        self.ops.append(op)
        self.cur = ofm
        return ofm

    @staticmethod
    def out_hw(h, w, kh, kw, sh, sw, dh, dw, padding):
        ekh, ekw = (kh - 1) * dh + 1, (kw - 1) * dw + 1
        if padding == Padding.SAME:
            return -(-h // sh), -(-w // sw)
        return (h - ekh) // sh + 1, (w - ekw) // sw + 1

    def conv(self, oc, k=(3, 3), s=(1, 1), d=(1, 1), padding=Padding.SAME, x=None, act=None):
        x = x or self.cur
        n, h, w, c = x.shape
        oh, ow = self.out_hw(h, w, k[0], k[1], s[0], s[1], d[0], d[1], padding)
        wt = self.const([oc, k[0], k[1], c])
        b = self.const([oc], DataType.int32, scale=0.001, lo=-100, hi=100)
        attrs = {
            "padding": padding,
            "stride_h": s[0],
            "stride_w": s[1],
            "dilation_h_factor": d[0],
            "dilation_w_factor": d[1],
            "fused_activation_function": act,
        }
        return self._add(Op.Conv2DBias, [x, wt, b], [n, oh, ow, oc], attrs)

    def dw(self, k=(3, 3), s=(1, 1), d=(1, 1), padding=Padding.SAME, x=None, act=None):
        x = x or self.cur
        n, h, w, c = x.shape
        oh, ow = self.out_hw(h, w, k[0], k[1], s[0], s[1], d[0], d[1], padding)
        wt = self.const([1, k[0], k[1], c])
        b = self.const([c], DataType.int32, scale=0.001, lo=-100, hi=100)
        attrs = {
            "padding": padding,
            "stride_h": s[0],
            "stride_w": s[1],
            "dilation_h_factor": d[0],
            "dilation_w_factor": d[1],
            "depth_multiplier": 1,
            "fused_activation_function": act,
        }
        return self._add(Op.DepthwiseConv2DBias, [x, wt, b], [n, oh, ow, c], attrs)

    def pool(self, kind="max", k=(2, 2), s=(2, 2), padding=Padding.VALID, x=None):
        x = x or self.cur
        n, h, w, c = x.shape
        oh, ow = self.out_hw(h, w, k[0], k[1], s[0], s[1], 1, 1, padding)
        attrs = {
            "padding": padding,
            "stride_h": s[0],
            "stride_w": s[1],
            "filter_height": k[0],
            "filter_width": k[1],
            "fused_activation_function": None,
        }
        return self._add(Op.MaxPool if kind == "max" else Op.AvgPool, [x], [n, oh, ow, c], attrs)

    def resize_nn(self, factor=2, x=None, align_corners=False, half_pixel_centers=False):
        x = x or self.cur
        n, h, w, c = x.shape
        oh, ow = h * factor, w * factor
        self.n += 1
        size = create_const_tensor(f"size{self.n}", [2], DataType.int32, np.array([oh, ow], np.int32))
        attrs = {"align_corners": align_corners, "half_pixel_centers": half_pixel_centers}
        return self._add(Op.ResizeNearestNeighbor, [x, size], [n, oh, ow, c], attrs)

    def resize_bilinear(self, factor=2, x=None, align_corners=False, half_pixel_centers=False):
        x = x or self.cur
        n, h, w, c = x.shape
        oh, ow = h * factor, w * factor
        self.n += 1
        size = create_const_tensor(f"size{self.n}", [2], DataType.int32, np.array([oh, ow], np.int32))
        attrs = {"align_corners": align_corners, "half_pixel_centers": half_pixel_centers}
        return self._add(Op.ResizeBilinear, [x, size], [n, oh, ow, c], attrs)

    def add_const(self, shape=None, x=None):
        x = x or self.cur
        shape = shape or [1, 1, 1, x.shape[3]]
        c = self.const(shape)
        return self._add(Op.Add, [x, c], list(x.shape), {"fused_activation_function": None})

    def add(self, a, b):
        return self._add(Op.Add, [a, b], list(a.shape), {"fused_activation_function": None})

    def concat(self, xs, axis):
        shape = list(xs[0].shape)
        shape[axis] = sum(t.shape[axis] for t in xs)
        return self._add(Op.ConcatTFLite, xs, shape, {"axis": axis, "fused_activation_function": None})

    def strided_slice(self, begin, end, x=None):
        x = x or self.cur
        self.n += 1
        b = create_const_tensor(f"b{self.n}", [4], DataType.int32, np.array(begin, np.int32))
        e = create_const_tensor(f"e{self.n}", [4], DataType.int32, np.array(end, np.int32))
        s = create_const_tensor(f"s{self.n}", [4], DataType.int32, np.array([1, 1, 1, 1], np.int32))
        shape = [en - be for be, en in zip(begin, end)]
        attrs = {"begin_mask": 0, "end_mask": 0, "ellipsis_mask": 0, "new_axis_mask": 0, "shrink_axis_mask": 0, "offset": False}
        return self._add(Op.StridedSlice, [x, b, e, s], shape, attrs)

    def tconv(self, oc, k=(3, 3), s=(2, 2), padding=Padding.SAME, x=None):
        x = x or self.cur
        n, h, w, c = x.shape
        if padding == Padding.SAME:
            oh, ow = h * s[0], w * s[1]
        else:
            oh, ow = (h - 1) * s[0] + k[0], (w - 1) * s[1] + k[1]
        self.n += 1
        oshape = create_const_tensor(f"oshape{self.n}", [4], DataType.int32, np.array([n, oh, ow, oc], np.int32))
        wt = self.const([oc, k[0], k[1], c])
        b = self.const([oc], DataType.int32, scale=0.001, lo=-100, hi=100)
        attrs = {"padding": padding, "stride_h": s[0], "stride_w": s[1]}
        return self._add(Op.Conv2DBackpropInput, [oshape, wt, x, b], [n, oh, ow, oc], attrs)

    def tflite_bytes(self, outputs=None):
        sg = Subgraph("main", PassPlacement.Cpu)
        sg.input_tensors = [self.inp]
        sg.original_inputs = [self.inp]
        sg.output_tensors = outputs or [self.cur]
        ps = Pass("all", PassPlacement.Cpu, False, NpuBlockType.Default)
        ps.ops = list(self.ops)
        sg.passes = [ps]
        nng = Graph("net")
        nng.subgraphs.append(sg)
        return bytearray(tflite_writer.write_tflite_buffer(nng))


def compile_bytes(
    data,
    accel="ethos-u55-128",
    system_config=None,
    memory_mode=None,
    sram=None,
    strategy="Performance",
    config_files=None,
    verbose_schedule=False,
    allocator=TensorAllocator.HillClimb,
):
    sys.setrecursionlimit(4000)
    DebugDatabase.clean_db()
    TensorAddressMap.clear_address_map()
    CompressedWeightCache.clear()
    AF = architecture_features.ArchitectureFeatures
    arch = AF(
        vela_config_files=config_files,
        system_config=system_config or AF.DEFAULT_CONFIG,
        memory_mode=memory_mode or AF.DEFAULT_CONFIG,
        accelerator_config=accel,
        max_blockdep=AF.MAX_BLOCKDEP,
        verbose_config=False,
        arena_cache_size=sram,
    )
    copts = compiler_driver.CompilerOptions(tensor_allocator=allocator, output_dir="/tmp/seed6/C10/out/scratch")
    sopts = scheduler.SchedulerOptions(
        optimization_strategy=getattr(scheduler.OptimizationStrategy, strategy),
        sram_target=arch.arena_cache_size,
        verbose_schedule=verbose_schedule,
    )
    nng, network_type = model_reader.read_tflite_model(data, model_reader.ModelReaderOptions())
    compiler_driver.compiler_driver(nng, arch, copts, sopts, network_type, "/tmp/seed6/C10/out/scratch/m")
    return nng, arch

"""Scratch helper (not a deliverable): independent checker of property C10 on a compiled network.

It looks at the high-level command stream and at the NpuOperations that are handed to the register command stream
generator, and re-derives what every stripe must read from the operator's own geometry.
"""
import numpy as np

from ethosu.vela import high_level_command_to_npu_op as hl2npu
from ethosu.vela.api import NpuResamplingMode
from ethosu.vela.high_level_command_stream import NpuStripe
from ethosu.vela.nn_graph import PassPlacement
from ethosu.vela.operation import NpuBlockType
from ethosu.vela.operation import Op
from ethosu.vela.operation import Padding
from ethosu.vela.tensor import TensorSubPurpose

_captured = []
_orig_gcs = hl2npu.generate_command_stream


def _capture(npu_op_list, arch, verbose, mem_limits, add_to_dbg_db=None, npu_op_to_cmd=None):
    _captured.append((list(npu_op_list), dict(npu_op_to_cmd or {})))
    return _orig_gcs(npu_op_list, arch, verbose, mem_limits, add_to_dbg_db, npu_op_to_cmd)


def install():
    hl2npu.generate_command_stream = _capture
    del _captured[:]


def ints(v):
    return [int(x) for x in v]


def src_of(g, hu, up, mode):
    """Source of global upscaled IFM row/col g: None for padding / inserted zero, else the IFM index"""
    if g < 0 or g >= hu:
        return None
    if up == 1:
        return g
    if mode == NpuResamplingMode.NEAREST:
        return g // up
    # transpose: zeros inserted
    return g // up if g % up == 0 else None


def check(nng, verbose=False):
    """Returns a list of violation strings"""
    errs = []
    assert _captured, "install() must be called before compiling"
    streams = list(_captured)
    npu_sgs = [sg for sg in nng.subgraphs if sg.placement == PassPlacement.Npu]
    stats = {"stripes": 0, "striped_ops": 0, "rolling": 0, "depth_sliced": 0}
    for sg, (npu_ops, op2cmd) in zip(npu_sgs, streams[-len(npu_sgs) :]):
        stripes_per_ps = {}
        produced = {}  # tensor -> bool array H,W,C   (standard tensors written by this subgraph)
        strided_out = set()
        slots = {}  # rolling tensor -> array of rows held
        for npu_op in npu_ops:
            cmd = op2cmd[npu_op]
            if not isinstance(cmd, NpuStripe):
                continue
            stats["stripes"] += 1
            ps = cmd.ps
            op = ps.primary_op
            name = op.name
            stripes_per_ps.setdefault(ps, []).append(cmd)
            ofm_s, ofm_e = ints(cmd.ofm_box.start_coord), ints(cmd.ofm_box.end_coord)
            ifm_s, ifm_e = ints(cmd.ifm_box.start_coord), ints(cmd.ifm_box.end_coord)
            wo = op.write_offset.as_list() if op.write_offset is not None else [0, 0, 0, 0]
            bt = op.type.npu_block_type
            # ---------------- receptive field -----------------
            is_ew = bt == NpuBlockType.ElementWise
            ifm_is_first = cmd.ifm_tensor is ps.ifm_tensor
            ro = op.read_offsets[0]
            rs = op.read_shapes[0]
            ifm_shape = ps.ifm_shapes[0]
            if not is_ew and bt != NpuBlockType.VectorProduct and len(ifm_s) == 4 and op.attrs.get('padding') != Padding.TILE:
                k = op.kernel
                pt, pl, pb, pr = [int(v) for v in op.attrs["explicit_padding"]]
                up = 1 if npu_op.ifm_upscale == NpuResamplingMode.NONE else 2
                win_off_h = int(ro[-3]) if ro is not None else 0
                win_off_w = int(ro[-2]) if ro is not None else 0
                win_h = int(rs[-3]) if ro is not None else int(ifm_shape.height)
                win_w = int(rs[-2]) if ro is not None else int(ifm_shape.width)
                pad = npu_op.padding
                # height
                for axis, (o0, o1, i0, i1, woff, winoff, win, s, kk, d, p_orig, p_lo, p_hi, nm) in enumerate(
                    [
                        (ofm_s[1], ofm_e[1], ifm_s[1], ifm_e[1], wo[1], win_off_h, win_h, k.stride.y, k.height, k.dilation.y, pt, pad.top, pad.bottom, "H"),
                        (ofm_s[2], ofm_e[2], ifm_s[2], ifm_e[2], wo[2], win_off_w, win_w, k.stride.x, k.width, k.dilation.x, pl, pad.left, pad.right, "W"),
                    ]
                ):
                    hu = win * up
                    n_local = (i1 - i0) * up
                    bad = None
                    for y in range(o0 - woff, o1 - woff):
                        for j in range(kk):
                            g = y * s + j * d - p_orig
                            want = src_of(g, hu, up, npu_op.ifm_upscale)
                            if want is not None:
                                want += winoff
                            r = (y - (o0 - woff)) * s + j * d - p_lo
                            if r < 0:
                                got = None
                            elif r < n_local:
                                if up == 1:
                                    got = i0 + r
                                elif npu_op.ifm_upscale == NpuResamplingMode.NEAREST:
                                    got = i0 + r // up
                                else:
                                    got = i0 + r // up if r % up == 0 else None
                            elif r < n_local + p_hi:
                                got = None
                            else:
                                got = "OUTSIDE"
                            if got != want:
                                bad = (y + woff, j, want, got)
                                break
                        if bad:
                            break
                    if bad:
                        errs.append(
                            f"{name}: axis {nm}: OFM {o0}..{o1} reads IFM {i0}..{i1} with pad lo/hi {p_lo}/{p_hi}:"
                            f" OFM index {bad[0]} kernel tap {bad[1]} must read {bad[2]} but reads {bad[3]}"
                            f" (kernel {kk} stride {s} dilation {d} orig pad {p_orig} upscale {up} window {winoff}+{win})"
                        )
                    # the box must stay inside the window
                    if i0 < winoff or i1 > winoff + win:
                        errs.append(f"{name}: axis {nm}: IFM box {i0}..{i1} outside window {winoff}..{winoff+win}")
                # the HW view of the IFM shape must match the box
                if (npu_op.ifm.shape.height, npu_op.ifm.shape.width) != (ifm_e[1] - ifm_s[1], ifm_e[2] - ifm_s[2]):
                    errs.append(f"{name}: npu ifm shape {npu_op.ifm.shape} != box {ifm_s}..{ifm_e}")
                # depth
                if bt in (NpuBlockType.ConvolutionMxN, NpuBlockType.ReduceSum):
                    d0 = int(ro[-1]) if ro is not None else 0
                    d1 = d0 + (int(rs[-1]) if ro is not None else int(ifm_shape.depth))
                    if (ifm_s[3], ifm_e[3]) != (d0, d1):
                        errs.append(f"{name}: IFM depth {ifm_s[3]}..{ifm_e[3]} expected {d0}..{d1}")
                else:
                    d0 = int(ro[-1]) if ro is not None else 0
                    if (ifm_s[3], ifm_e[3]) != (ofm_s[3] - wo[3] + d0, ofm_e[3] - wo[3] + d0):
                        errs.append(f"{name}: IFM depth {ifm_s[3]}..{ifm_e[3]} vs OFM depth {ofm_s[3]}..{ofm_e[3]} (wo {wo[3]}, ro {d0})")
            elif is_ew and len(ifm_s) == 4 and len(ofm_s) == 4:
                pairs = []
                for tens_, box_ in ((cmd.ifm_tensor, cmd.ifm_box), (cmd.ifm2_tensor, cmd.ifm2_box)):
                    if tens_ is None:
                        continue
                    idx_ = 0 if tens_ is op.ifm else (1 if tens_ is op.ifm2 else None)
                    if idx_ is None or idx_ >= len(op.ifm_shapes):
                        continue
                    pairs.append(("ifm" if idx_ == 0 else "ifm2", ints(box_.start_coord), ints(box_.end_coord), op.ifm_shapes[idx_], op.read_offsets[idx_]))
                for which, box_s, box_e, shp, roff in pairs:
                    if not box_s or shp is None or len(box_s) != 4:
                        continue
                    shp = shp.as_list()
                    for ax in range(4):
                        r0 = int(roff[ax]) if roff is not None else 0
                        if shp[ax] == 1 and (ps.ofm_shapes[0].as_list()[ax] != 1):
                            want = (r0, r0 + 1)
                        else:
                            want = (ofm_s[ax] - wo[ax] + r0, ofm_e[ax] - wo[ax] + r0)
                        if (box_s[ax], box_e[ax]) != want:
                            errs.append(f"{name}: elementwise {which} axis {ax}: box {box_s[ax]}..{box_e[ax]} expected {want[0]}..{want[1]} (OFM {ofm_s}..{ofm_e})")
            # ---------------- rolling buffers / produced rows -----------------
            for fm, tens, box_s, box_e, is_out in (
                (npu_op.ifm, cmd.ifm_tensor, ifm_s, ifm_e, False),
                (npu_op.ofm, cmd.ofm_tensor, ofm_s, ofm_e, True),
            ):
                if len(box_s) != 4:
                    continue
                rolling = tens.sub_purpose == TensorSubPurpose.RollingBufferY
                B = int(tens.storage_shape[1]) if rolling else None
                # tile check: every row of the box must be addressed where the tensor stores it
                h0, h1, w0, addrs = fm.tiles.height_0, fm.tiles.height_1, fm.tiles.width_0, fm.tiles.addresses
                sy = fm.strides.height
                a = box_s[1]
                if rolling:
                    stats["rolling"] += 1
                    base_row0 = addrs[0] - (a % B) * sy
                    for r in range(box_s[1], box_e[1]):
                        if r - a < h0:
                            got = addrs[0] + (r - a) * sy
                        else:
                            got = addrs[2] + (r - a - h0) * sy
                        want = base_row0 + (r % B) * sy
                        if got != want:
                            errs.append(
                                f"{name}: {'OFM' if is_out else 'IFM'} rows {box_s[1]}..{box_e[1]} of rolling buffer"
                                f" '{tens.name}' (height {B}): row {r} addressed at {got}, stored at {want} (tiles h0={h0} addrs={addrs})"
                            )
                            break
                    lo = tens.address
                    hi = tens.address + tens.storage_size()
                    if not (lo <= base_row0 and base_row0 + B * sy <= hi + sy):
                        pass
                    sl = slots.setdefault(tens, np.full(B, -1))
                    if is_out:
                        for r in range(box_s[1], box_e[1]):
                            sl[r % B] = r
                    else:
                        for r in range(box_s[1], box_e[1]):
                            if sl[r % B] != r:
                                errs.append(
                                    f"{name}: reads row {r} of rolling buffer '{tens.name}' (height {B}) but the slot holds row {int(sl[r % B])}"
                                    f" (IFM rows {box_s[1]}..{box_e[1]})"
                                )
                                break
                else:
                    if is_out and list(getattr(op, "ofm_stride_multiplier", [1, 1, 1]) or [1, 1, 1]) != [1, 1, 1]:
                        produced[tens] = None
                        strided_out.add(ps)
                    elif is_out and produced.get(tens, 0) is None:
                        pass
                    elif is_out:
                        shape = ps.ofm_shapes[0].as_list()
                        arr = produced.setdefault(tens, np.zeros(shape[1:], dtype=np.int32))
                        if arr.shape == tuple(shape[1:]):
                            arr[box_s[1] : box_e[1], box_s[2] : box_e[2], box_s[3] : box_e[3]] += 1
                    elif produced.get(tens) is not None:
                        arr = produced[tens]
                        if arr.shape == tuple(ps.ifm_shapes[0].as_list()[1:]):
                            sub = arr[box_s[1] : box_e[1], box_s[2] : box_e[2], box_s[3] : box_e[3]]
                            if sub.size and sub.min() < 1:
                                errs.append(f"{name}: reads {box_s}..{box_e} of '{tens.name}' before it was written")
        # ---------------- OFM partition -----------------
        for ps, cmds in stripes_per_ps.items():
            if ps in strided_out:
                continue
            op = ps.primary_op
            shape = ps.ofm_shapes[0].as_list()
            cover = np.zeros(shape, dtype=np.int32)
            for c in cmds:
                s, e = ints(c.ofm_box.start_coord), ints(c.ofm_box.end_coord)
                if len(s) != 4:
                    break
                cover[s[0] : e[0], s[1] : e[1], s[2] : e[2], s[3] : e[3]] += 1
            else:
                if op.write_offset is not None:
                    wo = op.write_offset.as_list()
                    ws = op.write_shape.as_list()
                else:
                    wo, ws = [0, 0, 0, 0], shape
                want = np.zeros(shape, dtype=np.int32)
                want[wo[0] : wo[0] + ws[0], wo[1] : wo[1] + ws[1], wo[2] : wo[2] + ws[2], wo[3] : wo[3] + ws[3]] = 1
                if not np.array_equal(cover, want):
                    diff = np.argwhere(cover != want)[0]
                    errs.append(
                        f"{op.name}: OFM boxes do not partition the written region {wo}+{ws}: element {ints(diff)} covered {int(cover[tuple(diff)])} times"
                        f" ({len(cmds)} stripes)"
                    )
                if len(cmds) > 1:
                    stats["striped_ops"] += 1
                    if len(set(ints(c.ofm_box.start_coord)[3] for c in cmds)) > 1:
                        stats["depth_sliced"] += 1
    return errs, stats

"""Observation 2 (UNMODIFIED tree; single stripe, i.e. not caused by striping): PAD + strided VALID convolution loses its
bottom padding.

PAD (top = bottom = 1) followed by a VALID convolution with kernel height 2 and stride 3 on a 15 row feature map is
rewritten to one convolution with EXPLICIT padding.  graph_optimiser_util.calc_explicit_padding() reduces the bottom
padding from 1 to 0 ("downward adjustment depending on stride"), although the 6 OFM rows of the operator need it: OFM
row 5 reads padded rows 15 and 16 = IFM rows 14 and 15, and the IFM only has rows 0..14.  The NPU operation is issued with
IFM rows 0..15, pad top/bottom 1/0 = 16 rows, but (6 - 1) * 3 + 2 = 17 rows are needed, so the hardware reads one row
behind the feature map instead of zero padding.  (With 16 IFM rows or kernel height 3 the padding is right.)
Exit status 1 = violation reproduced.
"""
import contextlib
import io
import os
import sys

sys.path.insert(0, os.getcwd())

import numpy as np

from ethosu.vela import architecture_features
from ethosu.vela import compiler_driver
from ethosu.vela import high_level_command_to_npu_op as hl2npu
from ethosu.vela import model_reader
from ethosu.vela import scheduler
from ethosu.vela import tflite_writer
from ethosu.vela.data_type import DataType
from ethosu.vela.debug_database import DebugDatabase
from ethosu.vela.high_level_command_stream import Box
from ethosu.vela.high_level_command_stream import NpuStripe
from ethosu.vela.nn_graph import Graph
from ethosu.vela.nn_graph import Pass
from ethosu.vela.nn_graph import PassPlacement
from ethosu.vela.nn_graph import Subgraph
from ethosu.vela.nn_graph import TensorAllocator
from ethosu.vela.operation import NpuBlockType
from ethosu.vela.operation import Op
from ethosu.vela.operation import Operation
from ethosu.vela.operation import Kernel
from ethosu.vela.operation import Padding
from ethosu.vela.tensor import create_const_tensor
from ethosu.vela.tensor import QuantizationParameters
from ethosu.vela.tensor import Tensor
from ethosu.vela.tensor import TensorAddressMap
from ethosu.vela.tensor import TensorSubPurpose
from ethosu.vela.shape4d import Shape4D
from ethosu.vela.tflite_graph_optimiser import calc_padding_and_skirt
from ethosu.vela.weight_compressor import CompressedWeightCache

rng = np.random.RandomState(1)
counter = [0]


def quant(scale):
    q = QuantizationParameters()
    q.scale_f32 = np.float32(scale)
    q.zero_point = np.int64(0)
    q.quant_min = -128
    q.quant_max = 127
    return q


def feature_map(shape, name):
    t = Tensor(list(shape), DataType.int8, name)
    t.quantization = quant(0.05)
    return t


def conv(ops, x, oc, k, s, d, padding):
    counter[0] += 1
    n = counter[0]
    _, h, w, c = x.shape
    ekh, ekw = (k[0] - 1) * d[0] + 1, (k[1] - 1) * d[1] + 1
    if padding == Padding.SAME:
        oh, ow = -(-h // s[0]), -(-w // s[1])
    else:
        oh, ow = (h - ekh) // s[0] + 1, (w - ekw) // s[1] + 1
    wt = create_const_tensor(
        f"w{n}", [oc, k[0], k[1], c], DataType.int8, rng.randint(-20, 20, [oc, k[0], k[1], c]).astype(np.int8), quantization=quant(0.02)
    )
    b = create_const_tensor(f"b{n}", [oc], DataType.int32, rng.randint(-99, 99, [oc]).astype(np.int32), quantization=quant(0.001))
    op = Operation(Op.Conv2DBias, f"conv{n}")
    for t in (x, wt, b):
        op.add_input_tensor(t)
    ofm = feature_map([1, oh, ow, oc], f"fm{n}")
    op.set_output_tensor(ofm)
    op.attrs = {
        "padding": padding,
        "stride_h": s[0],
        "stride_w": s[1],
        "dilation_h_factor": d[0],
        "dilation_w_factor": d[1],
        "fused_activation_function": None,
    }
    ops.append(op)
    return ofm


def build():
    ops = []
    inp = feature_map([1, 15, 8, 8], "input")
    x = conv(ops, inp, 16, (1, 1), (1, 1), (1, 1), Padding.SAME)
    pads = create_const_tensor("pads", [4, 2], DataType.int32, np.array([[0, 0], [1, 1], [0, 0], [0, 0]], np.int32))
    pad_op = Operation(Op.Pad, "pad")
    pad_op.add_input_tensor(x)
    pad_op.add_input_tensor(pads)
    padded = feature_map([1, 17, 8, 16], "padded")
    pad_op.set_output_tensor(padded)
    pad_op.attrs = {}
    ops.append(pad_op)
    x = conv(ops, padded, 16, (2, 1), (3, 1), (1, 1), Padding.VALID)
    sg = Subgraph("main", PassPlacement.Cpu)
    sg.input_tensors = [inp]
    sg.original_inputs = [inp]
    sg.output_tensors = [x]
    ps = Pass("all", PassPlacement.Cpu, False, NpuBlockType.Default)
    ps.ops = ops
    sg.passes = [ps]
    nng = Graph("net")
    nng.subgraphs.append(sg)
    return bytearray(tflite_writer.write_tflite_buffer(nng))


captured = []
orig_generate = hl2npu.generate_command_stream


def capture(npu_op_list, arch, verbose, mem_limits, add_to_dbg_db=None, npu_op_to_cmd=None):
    captured.append((list(npu_op_list), dict(npu_op_to_cmd or {})))
    return orig_generate(npu_op_list, arch, verbose, mem_limits, add_to_dbg_db, npu_op_to_cmd)


def compile_model(data):
    sys.setrecursionlimit(4000)
    DebugDatabase.clean_db()
    TensorAddressMap.clear_address_map()
    CompressedWeightCache.clear()
    AF = architecture_features.ArchitectureFeatures
    arch = AF(
        vela_config_files=None,
        system_config=AF.DEFAULT_CONFIG,
        memory_mode=AF.DEFAULT_CONFIG,
        accelerator_config="ethos-u55-128",
        max_blockdep=AF.MAX_BLOCKDEP,
        verbose_config=False,
        arena_cache_size=None,
    )
    out_dir = os.path.join(os.getcwd(), "out", "scratch")
    os.makedirs(out_dir, exist_ok=True)
    copts = compiler_driver.CompilerOptions(tensor_allocator=TensorAllocator.HillClimb, output_dir=out_dir)
    sopts = scheduler.SchedulerOptions(
        optimization_strategy=scheduler.OptimizationStrategy.Performance, sram_target=arch.arena_cache_size, verbose_schedule=False
    )
    nng, network_type = model_reader.read_tflite_model(data, model_reader.ModelReaderOptions())
    hl2npu.generate_command_stream = capture
    try:
        with contextlib.redirect_stdout(io.StringIO()):
            compiler_driver.compiler_driver(nng, arch, copts, sopts, network_type, os.path.join(out_dir, "obs2"))
    finally:
        hl2npu.generate_command_stream = orig_generate
    return nng


def main():
    found = 0
    compile_model(build())
    for npu_ops, op_to_cmd in captured:
        for npu_op in npu_ops:
            cmd = op_to_cmd[npu_op]
            if not isinstance(cmd, NpuStripe):
                continue
            op = cmd.ps.primary_op
            if op.attrs.get("padding") != Padding.EXPLICIT:
                continue
            y0, y1 = int(cmd.ofm_box.start_coord[1]), int(cmd.ofm_box.end_coord[1])
            i0, i1 = int(cmd.ifm_box.start_coord[1]), int(cmd.ifm_box.end_coord[1])
            k_h, s_y = op.kernel.height, op.kernel.stride.y
            provided = (i1 - i0) + npu_op.padding.top + npu_op.padding.bottom
            needed = (y1 - y0 - 1) * s_y + k_h
            print(
                f"{op.name}: OFM rows {y0}..{y1}, kernel height {k_h}, stride {s_y}, explicit padding"
                f" {tuple(int(p) for p in op.attrs['explicit_padding'])}: IFM rows {i0}..{i1} + pad top/bottom"
                f" {npu_op.padding.top}/{npu_op.padding.bottom} = {provided} rows provided, {needed} rows needed"
            )
            if needed > provided:
                found += 1
    if found:
        print("VIOLATION reproduced")
        return 1
    print("no violation")
    return 0


if __name__ == "__main__":
    sys.exit(main())

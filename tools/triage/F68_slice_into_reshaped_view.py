"""Support library for the C03 demos: in-memory TFLite model builder, compile harness and a
register-command-stream executor with per-byte writer tags."""
import os
import sys
import tempfile
import contextlib
import io

import numpy as np

sys.path.insert(0, os.getcwd())

from ethosu.vela import architecture_features  # noqa: E402
from ethosu.vela import compiler_driver  # noqa: E402
from ethosu.vela import model_reader  # noqa: E402
from ethosu.vela import scheduler  # noqa: E402
from ethosu.vela import vela  # noqa: E402
from ethosu.vela.data_type import DataType  # noqa: E402
from ethosu.vela.nn_graph import Graph  # noqa: E402
from ethosu.vela.nn_graph import Pass  # noqa: E402
from ethosu.vela.nn_graph import PassPlacement  # noqa: E402
from ethosu.vela.nn_graph import Subgraph  # noqa: E402
from ethosu.vela.nn_graph import TensorAllocator  # noqa: E402
from ethosu.vela.operation import NpuBlockType  # noqa: E402
from ethosu.vela.operation import Op  # noqa: E402
from ethosu.vela.operation import Operation  # noqa: E402
from ethosu.vela.operation import Padding  # noqa: E402
from ethosu.vela.tensor import create_const_tensor  # noqa: E402
from ethosu.vela.tensor import QuantizationParameters  # noqa: E402
from ethosu.vela.tensor import Tensor  # noqa: E402
from ethosu.vela.tflite_writer import write_tflite_buffer  # noqa: E402


# ---------------------------------------------------------------------------------------------
# Model builder
# ---------------------------------------------------------------------------------------------
def qp(scale=1.0, zp=0):
    q = QuantizationParameters()
    q.scale_f32 = np.float32(scale)
    q.zero_point = zp
    q.quant_min = -128
    q.quant_max = 127
    return q


class Net:
    def __init__(self, seed=0):
        self.ops = []
        self.inputs = []
        self.rng = np.random.RandomState(seed)
        self.n = 0

    def _name(self, base):
        self.n += 1
        return f"{base}{self.n}"

    def input(self, shape, dtype=DataType.int8, scale=0.05, zp=0, name=None):
        t = Tensor(list(shape), dtype, name or self._name("input"))
        t.quantization = qp(scale, zp)
        op = Operation(Op.Placeholder, t.name + "_ph")
        op.set_output_tensor(t)
        self.inputs.append(t)
        return t

    def _act(self, shape, dtype, scale, zp, base):
        t = Tensor(list(shape), dtype, self._name(base))
        t.quantization = qp(scale, zp)
        return t

    def _add(self, op_type, inputs, out, attrs, base):
        op = Operation(op_type, out.name + "_op")
        for i in inputs:
            if i is None:
                op.inputs.append(None)
            else:
                op.add_input_tensor(i)
        op.set_output_tensor(out)
        op.attrs.update(attrs)
        self.ops.append(op)
        return out

    def conv(
        self, x, cout, k=3, stride=1, padding="SAME", dilation=1, act=None, scale=0.05, zp=0, wscale=0.02, weights=None
    ):
        kh, kw = (k, k) if isinstance(k, int) else k
        sh, sw = (stride, stride) if isinstance(stride, int) else stride
        n, h, w, c = x.shape
        oh, ow = self._out_hw(h, w, kh, kw, sh, sw, padding, dilation)
        if weights is None:
            wv = self.rng.randint(-127, 128, size=(cout, kh, kw, c)).astype(np.int8)
            wt = create_const_tensor(self._name("w"), [cout, kh, kw, c], DataType.int8, wv, quantization=qp(wscale, 0))
        else:
            wt = weights
        bv = self.rng.randint(-1000, 1000, size=(cout,)).astype(np.int32)
        bt = create_const_tensor(self._name("b"), [cout], DataType.int32, bv, quantization=qp(x.quantization.scale_f32 * wscale, 0))
        out = self._act([n, oh, ow, cout], x.dtype, scale, zp, "conv")
        attrs = {
            "padding": self._pad(padding),
            "stride_w": sw,
            "stride_h": sh,
            "dilation_w_factor": dilation,
            "dilation_h_factor": dilation,
            "fused_activation_function": act,
        }
        self.last_weights = wt
        return self._add(Op.Conv2DBias, [x, wt, bt], out, attrs, "conv")

    def dwconv(self, x, k=3, stride=1, padding="SAME", dilation=1, act=None, scale=0.05, zp=0, wscale=0.02):
        kh, kw = (k, k) if isinstance(k, int) else k
        sh, sw = (stride, stride) if isinstance(stride, int) else stride
        n, h, w, c = x.shape
        oh, ow = self._out_hw(h, w, kh, kw, sh, sw, padding, dilation)
        wv = self.rng.randint(-127, 128, size=(1, kh, kw, c)).astype(np.int8)
        wt = create_const_tensor(self._name("dw"), [1, kh, kw, c], DataType.int8, wv, quantization=qp(wscale, 0))
        bv = self.rng.randint(-1000, 1000, size=(c,)).astype(np.int32)
        bt = create_const_tensor(self._name("db"), [c], DataType.int32, bv, quantization=qp(x.quantization.scale_f32 * wscale, 0))
        out = self._act([n, oh, ow, c], x.dtype, scale, zp, "dwconv")
        attrs = {
            "padding": self._pad(padding),
            "stride_w": sw,
            "stride_h": sh,
            "dilation_w_factor": dilation,
            "dilation_h_factor": dilation,
            "depth_multiplier": 1,
            "fused_activation_function": act,
        }
        return self._add(Op.DepthwiseConv2DBias, [x, wt, bt], out, attrs, "dwconv")

    def pool(self, x, kind="max", k=2, stride=2, padding="VALID", scale=None, zp=None):
        kh, kw = (k, k) if isinstance(k, int) else k
        sh, sw = (stride, stride) if isinstance(stride, int) else stride
        n, h, w, c = x.shape
        oh, ow = self._out_hw(h, w, kh, kw, sh, sw, padding, 1)
        out = self._act(
            [n, oh, ow, c],
            x.dtype,
            x.quantization.scale_f32 if scale is None else scale,
            x.quantization.zero_point if zp is None else zp,
            "pool",
        )
        attrs = {
            "padding": self._pad(padding),
            "stride_w": sw,
            "stride_h": sh,
            "filter_width": kw,
            "filter_height": kh,
            "fused_activation_function": None,
        }
        return self._add(Op.MaxPool if kind == "max" else Op.AvgPool, [x], out, attrs, "pool")

    def add(self, a, b, scale=0.1, zp=0, act=None, op=Op.Add):
        shape = [max(i, j) for i, j in zip(a.shape, b.shape)] if len(a.shape) == len(b.shape) else list(a.shape)
        out = self._act(shape, a.dtype, scale, zp, "add")
        attrs = {"fused_activation_function": act}
        if op in (Op.Add, Op.Sub):
            attrs["pot_scale_int16"] = False
        return self._add(op, [a, b], out, attrs, "add")

    def const(self, shape, dtype=DataType.int8, scale=0.05, zp=0):
        v = self.rng.randint(-100, 100, size=tuple(shape)).astype(dtype.as_numpy_type())
        return create_const_tensor(self._name("c"), list(shape), dtype, v, quantization=qp(scale, zp))

    def unary(self, x, op, scale=None, zp=None, attrs=None):
        out = self._act(
            list(x.shape),
            x.dtype,
            x.quantization.scale_f32 if scale is None else scale,
            x.quantization.zero_point if zp is None else zp,
            "un",
        )
        return self._add(op, [x], out, attrs or {}, "un")

    def reshape(self, x, shape):
        out = self._act(list(shape), x.dtype, x.quantization.scale_f32, x.quantization.zero_point, "reshape")
        st = create_const_tensor(self._name("shape"), [len(shape)], DataType.int32, np.array(shape, dtype=np.int32))
        return self._add(Op.Reshape, [x, st], out, {"new_shape": list(shape)}, "reshape")

    def concat(self, xs, axis=3, scale=None, zp=None):
        shape = list(xs[0].shape)
        shape[axis] = sum(x.shape[axis] for x in xs)
        out = self._act(
            shape,
            xs[0].dtype,
            xs[0].quantization.scale_f32 if scale is None else scale,
            xs[0].quantization.zero_point if zp is None else zp,
            "concat",
        )
        return self._add(Op.ConcatTFLite, list(xs), out, {"axis": axis, "fused_activation_function": None}, "concat")

    def fc(self, x, cout, scale=0.05, zp=0, wscale=0.02):
        n, c = x.shape
        wv = self.rng.randint(-127, 128, size=(cout, c)).astype(np.int8)
        wt = create_const_tensor(self._name("fw"), [cout, c], DataType.int8, wv, quantization=qp(wscale, 0))
        bv = self.rng.randint(-1000, 1000, size=(cout,)).astype(np.int32)
        bt = create_const_tensor(self._name("fb"), [cout], DataType.int32, bv, quantization=qp(x.quantization.scale_f32 * wscale, 0))
        out = self._act([n, cout], x.dtype, scale, zp, "fc")
        attrs = {"fused_activation_function": None, "weights_format": 0, "keep_num_dims": False, "asymmetric_quantize_inputs": False}
        return self._add(Op.FullyConnected, [x, wt, bt], out, attrs, "fc")

    def resize_nn(self, x, factor=2, half_pixel=False, align=False):
        n, h, w, c = x.shape
        out = self._act([n, h * factor, w * factor, c], x.dtype, x.quantization.scale_f32, x.quantization.zero_point, "rsz")
        st = create_const_tensor(self._name("size"), [2], DataType.int32, np.array([h * factor, w * factor], dtype=np.int32))
        return self._add(
            Op.ResizeNearestNeighbor, [x, st], out, {"align_corners": align, "half_pixel_centers": half_pixel}, "rsz"
        )


    def pad(self, x, top=1, bottom=1, left=1, right=1):
        n, h, w, c = x.shape
        out = self._act([n, h + top + bottom, w + left + right, c], x.dtype, x.quantization.scale_f32, x.quantization.zero_point, "pad")
        pv = np.array([[0, 0], [top, bottom], [left, right], [0, 0]], dtype=np.int32)
        pt = create_const_tensor(self._name("paddings"), [4, 2], DataType.int32, pv)
        return self._add(Op.Pad, [x, pt], out, {}, "pad")

    def mean(self, x, keep_dims=True):
        n, h, w, c = x.shape
        out = self._act([n, 1, 1, c] if keep_dims else [n, c], x.dtype, x.quantization.scale_f32, x.quantization.zero_point, "mean")
        at = create_const_tensor(self._name("axes"), [2], DataType.int32, np.array([1, 2], dtype=np.int32))
        return self._add(Op.Mean, [x, at], out, {"keep_dims": keep_dims}, "mean")

    def split(self, x, num, axis=3):
        shape = list(x.shape)
        assert shape[axis] % num == 0
        shape[axis] //= num
        at = create_const_tensor(self._name("axis"), [], DataType.int32, np.array(axis, dtype=np.int32))
        op = Operation(Op.Split, self._name("split") + "_op")
        op.add_input_tensor(at)
        op.add_input_tensor(x)
        outs = []
        for i in range(num):
            o = self._act(shape, x.dtype, x.quantization.scale_f32, x.quantization.zero_point, "split")
            o.ops = [op]
            op.outputs.append(o)
            outs.append(o)
        op.attrs.update({"num_splits": num})
        self.ops.append(op)
        return outs

    def strided_slice(self, x, begin, end):
        shape = [e - b for b, e in zip(begin, end)]
        out = self._act(shape, x.dtype, x.quantization.scale_f32, x.quantization.zero_point, "slice")
        bt = create_const_tensor(self._name("begin"), [4], DataType.int32, np.array(begin, dtype=np.int32))
        et = create_const_tensor(self._name("end"), [4], DataType.int32, np.array(end, dtype=np.int32))
        st = create_const_tensor(self._name("strides"), [4], DataType.int32, np.array([1, 1, 1, 1], dtype=np.int32))
        attrs = {"begin_mask": 0, "ellipsis_mask": 0, "end_mask": 0, "new_axis_mask": 0, "shrink_axis_mask": 0, "offset": False}
        return self._add(Op.StridedSlice, [x, bt, et, st], out, attrs, "slice")

    def transpose(self, x, perm):
        shape = [x.shape[p] for p in perm]
        out = self._act(shape, x.dtype, x.quantization.scale_f32, x.quantization.zero_point, "transpose")
        pt = create_const_tensor(self._name("perm"), [len(perm)], DataType.int32, np.array(perm, dtype=np.int32))
        return self._add(Op.Transpose, [x, pt], out, {}, "transpose")

    def softmax(self, x):
        out = self._act(list(x.shape), x.dtype, 1.0 / 256 if x.dtype == DataType.int8 else 1.0 / 32768, -128 if x.dtype == DataType.int8 else 0, "softmax")
        return self._add(Op.Softmax, [x], out, {"beta": 1.0}, "softmax")

    def resize_bilinear(self, x, factor=2, half_pixel=False, align=False):
        n, h, w, c = x.shape
        out = self._act([n, h * factor, w * factor, c], x.dtype, x.quantization.scale_f32, x.quantization.zero_point, "rszb")
        st = create_const_tensor(self._name("size"), [2], DataType.int32, np.array([h * factor, w * factor], dtype=np.int32))
        return self._add(Op.ResizeBilinear, [x, st], out, {"align_corners": align, "half_pixel_centers": half_pixel}, "rszb")

    def transpose_conv(self, x, cout, k=3, stride=2, padding="SAME", scale=0.05, zp=0, wscale=0.02):
        n, h, w, c = x.shape
        if padding == "SAME":
            oh, ow = h * stride, w * stride
        else:
            oh, ow = (h - 1) * stride + k, (w - 1) * stride + k
        wv = self.rng.randint(-127, 128, size=(cout, k, k, c)).astype(np.int8)
        wt = create_const_tensor(self._name("tw"), [cout, k, k, c], DataType.int8, wv, quantization=qp(wscale, 0))
        bv = self.rng.randint(-1000, 1000, size=(cout,)).astype(np.int32)
        bt = create_const_tensor(self._name("tb"), [cout], DataType.int32, bv, quantization=qp(x.quantization.scale_f32 * wscale, 0))
        ost = create_const_tensor(self._name("oshape"), [4], DataType.int32, np.array([n, oh, ow, cout], dtype=np.int32))
        out = self._act([n, oh, ow, cout], x.dtype, scale, zp, "tconv")
        attrs = {"padding": self._pad(padding), "stride_w": stride, "stride_h": stride, "fused_activation_function": None}
        return self._add(Op.Conv2DBackpropInput, [ost, wt, x, bt], out, attrs, "tconv")

    def cpu_op(self, x):
        """An operator Vela leaves on the CPU (average pool with a 9x9 SAME kernel)"""
        return self.pool(x, "avg", 9, 1, "SAME")

    def quantize(self, x, scale, zp=0, dtype=None):
        out = self._act(list(x.shape), dtype or x.dtype, scale, zp, "quant")
        return self._add(Op.Quantize, [x], out, {}, "quant")

    @staticmethod
    def _pad(p):
        from ethosu.vela.operation import Padding

        return Padding.SAME if p == "SAME" else Padding.VALID

    @staticmethod
    def _out_hw(h, w, kh, kw, sh, sw, padding, dil):
        if padding == "SAME":
            return (h + sh - 1) // sh, (w + sw - 1) // sw
        kh = (kh - 1) * dil + 1
        kw = (kw - 1) * dil + 1
        return (h - kh) // sh + 1, (w - kw) // sw + 1

    def build(self, outputs, keep_offline_allocation=False):
        sg = Subgraph("main", PassPlacement.Cpu)
        sg.input_tensors = list(self.inputs)
        sg.original_inputs = list(self.inputs)
        sg.output_tensors = list(outputs)
        for idx, op in enumerate(self.ops):
            op.op_index = idx
            ps = Pass(op.name, PassPlacement.Cpu, False, NpuBlockType.Default)
            ps.ops = [op]
            ps.primary_op = op
            sg.passes.append(ps)
        nng = Graph("net", 1)
        nng.subgraphs.append(sg)
        buf = bytes(write_tflite_buffer(nng))
        if not keep_offline_allocation:
            # Vela's writer always adds an (all "-1") OfflineMemoryAllocation entry; a model coming from a converter
            # has none, so make it an unrelated metadata entry (same length, so the flatbuffer stays valid)
            assert len(b"OfflineMemoryAllocation") == len(b"PreCompileMemAllocation")
            buf = buf.replace(b"OfflineMemoryAllocation", b"PreCompileMemAllocation")
        return buf


# ---------------------------------------------------------------------------------------------
# Compile harness
# ---------------------------------------------------------------------------------------------
def make_arch(accel="ethos-u55-128", system_config=None, memory_mode=None, arena_cache_size=None, config=None):
    dflt = architecture_features.ArchitectureFeatures.DEFAULT_CONFIG
    return architecture_features.ArchitectureFeatures(
        vela_config_files=config,
        system_config=system_config or dflt,
        memory_mode=memory_mode or dflt,
        accelerator_config=accel,
        max_blockdep=architecture_features.ArchitectureFeatures.MAX_BLOCKDEP,
        verbose_config=False,
        arena_cache_size=arena_cache_size,
    )


def compile_model(
    tflite_bytes,
    accel="ethos-u55-128",
    system_config=None,
    memory_mode=None,
    arena_cache_size=None,
    optimise="Performance",
    allocator=TensorAllocator.HillClimb,
    config=None,
    quiet=True,
    **copts,
):
    arch = make_arch(accel, system_config, memory_mode, arena_cache_size, config)
    base = os.path.join(os.getcwd(), "out", "tmp")  # keep all scratch files inside the worktree's out/ directory
    os.makedirs(base, exist_ok=True)
    outdir = tempfile.mkdtemp(prefix="c03_", dir=base)
    fname = os.path.join(outdir, "net.tflite")
    with open(fname, "wb") as f:
        f.write(tflite_bytes)
    options = compiler_driver.CompilerOptions(
        tensor_allocator=allocator, output_dir=outdir, hillclimb_max_iterations=99999, **copts
    )
    sopts = scheduler.SchedulerOptions(
        optimization_strategy=scheduler.OptimizationStrategy[optimise] if isinstance(optimise, str) else optimise,
        sram_target=arch.arena_cache_size,
        verbose_schedule=False,
    )
    with _silence(quiet):
        nng = vela.process(fname, False, arch, model_reader.ModelReaderOptions(), options, sopts, False)
    nng.c03_output_file = os.path.join(outdir, "net_vela.tflite")
    return nng, arch


@contextlib.contextmanager
def _silence(enabled):
    if not enabled:
        yield
        return
    sys.stdout.flush()
    saved = os.dup(1)
    devnull = os.open(os.devnull, os.O_WRONLY)
    os.dup2(devnull, 1)
    try:
        with contextlib.redirect_stdout(io.StringIO()):
            yield
    finally:
        sys.stdout.flush()
        os.dup2(saved, 1)
        os.close(saved)
        os.close(devnull)


# ---------------------------------------------------------------------------------------------
# Executor of the emitted register command streams with per-byte writer tags
# ---------------------------------------------------------------------------------------------
from ethosu.vela.ethos_u55_regs.ethos_u55_regs import cmd0, cmd1  # noqa: E402
from ethosu.vela.high_level_command_stream import DMA as HL_DMA, NOP as HL_NOP, NpuStripe as HL_Stripe  # noqa: E402
from ethosu.vela.tensor import MemType, TensorPurpose  # noqa: E402
from ethosu.vela.weight_compressor import WeightKey  # noqa: E402

REGION_FLASH = 0
REGION_SHRAM = 0x103
FLASH_TID = 0xFFFFF
LUT_TID = 0xFFFFE


def _ru(x, m):
    return (x + m - 1) // m * m


def read_offline_allocation(tflite_path):
    """Returns {tensor name: arena offset} as written in the OfflineMemoryAllocation metadata of the output file
    (-1: allocated by the runtime itself), or None if the file carries no such metadata"""
    from ethosu.vela.tflite import Model

    with open(tflite_path, "rb") as f:
        buf = bytearray(f.read())
    model = Model.Model.GetRootAsModel(buf, 0)
    alloc = None
    for i in range(model.MetadataLength()):
        meta = model.Metadata(i)
        if meta.Name() == b"OfflineMemoryAllocation":
            alloc = np.frombuffer(model.Buffers(meta.Buffer()).DataAsNumpy().tobytes(), dtype=np.int32)
            break  # the runtime takes the first entry with this name
    if alloc is None:
        return None
    res = {}
    pos = 3
    for sgi in range(model.SubgraphsLength()):
        sg = model.Subgraphs(sgi)
        for ti in range(sg.TensorsLength()):
            name = sg.Tensors(ti).Name().decode()
            res[name] = int(alloc[pos]) if pos < len(alloc) else -1
            pos += 1
    res["__count__"] = (int(alloc[2]), pos - 3)
    return res


class Violation:
    def __init__(self, op_index, op_name, operand, kind, nbytes, detail):
        self.op_index, self.op_name, self.operand, self.kind, self.nbytes, self.detail = (
            op_index,
            op_name,
            operand,
            kind,
            nbytes,
            detail,
        )

    def __str__(self):
        return (
            f"op#{self.op_index} '{self.op_name}' operand {self.operand}: {self.nbytes} byte(s) {self.kind}"
            f" ({self.detail})"
        )


class TagMemory:
    def __init__(self):
        self.writer = {}
        self.ident = {}

    def _ensure(self, region, size):
        cur = self.writer.get(region)
        if cur is None or len(cur) < size:
            new_size = max(size, 1024) * 2
            w = np.zeros(new_size, dtype=np.int64)
            i = np.zeros(new_size, dtype=np.int64)
            if cur is not None:
                w[: len(cur)] = cur
                i[: len(cur)] = self.ident[region]
            self.writer[region] = w
            self.ident[region] = i

    def write(self, region, addrs, writer, idents):
        addrs = np.asarray(addrs, dtype=np.int64)
        if addrs.size == 0:
            return
        self._ensure(region, int(addrs.max()) + 1)
        self.writer[region][addrs] = writer
        self.ident[region][addrs] = idents

    def read(self, region, addrs):
        addrs = np.asarray(addrs, dtype=np.int64)
        if addrs.size == 0:
            return np.zeros(0, np.int64), np.zeros(0, np.int64)
        self._ensure(region, int(addrs.max()) + 1)
        return self.writer[region][addrs], self.ident[region][addrs]


class Executor:
    """Executes, in program order, the register command stream of every NPU subgraph (and the CPU operators around
    them) on a memory of tags: every byte carries (last writer, identity of the logical datum).  Each read of each
    operation is checked: the byte must be defined, and must hold the datum the operation is meant to consume."""

    def __init__(self, nng, arch, placement=None):
        self.nng = nng
        self.arch = arch
        self.placement = placement  # {tensor name: arena offset} taken from the output file, if given
        self.online_next = 1 << 26  # tensors placed by the runtime itself live somewhere else
        self.online = {}
        self.mem = TagMemory()
        self.violations = []
        self.tids = {}
        self.op_seq = 0
        self.writers = {0: "<undefined>", -1: "<network input>"}
        self.log = []
        self.spilling = arch.is_spilling_enabled()

    # ---- identities ----
    def tid(self, tens):
        key = tens.equivalence_id
        if key not in self.tids:
            self.tids[key] = len(self.tids) + 1
        return self.tids[key]

    def region_of(self, tens):
        if tens.mem_type == MemType.Scratch:
            return 1
        if tens.mem_type == MemType.Scratch_fast:
            return 2 if self.spilling else 1
        return REGION_FLASH

    @staticmethod
    def ident(tid, byte_index):
        return (np.int64(tid) << np.int64(40)) + np.asarray(byte_index, dtype=np.int64) + np.int64(1)

    def lut_ident(self, lut, n):
        """Identity of the bytes of a lookup table: by content (tables with equal values are interchangeable)"""
        import zlib

        h = zlib.crc32(np.ascontiguousarray(lut.values).tobytes()) & 0xFFFFFF
        return self.ident(LUT_TID, (np.int64(h) << np.int64(12)) + np.arange(n, dtype=np.int64))

    def new_writer(self, name):
        self.op_seq += 1
        self.writers[self.op_seq] = name
        return self.op_seq

    # ---- CPU side ----
    def cpu_address(self, tens):
        """Where the runtime puts a tensor that the CPU reads or writes"""
        if self.placement is None or tens.name not in self.placement:
            return tens.address
        off = self.placement[tens.name]
        if off >= 0:
            return off
        if tens.name not in self.online:
            self.online[tens.name] = self.online_next
            self.online_next += _ru(tens.elements() * tens.element_size() + 16, 16)
        return self.online[tens.name]

    def define_linear_tensor(self, tens, writer):
        if tens.mem_type not in (MemType.Scratch, MemType.Scratch_fast) or self.cpu_address(tens) is None:
            return
        n = tens.elements() * tens.element_size()
        addrs = self.cpu_address(tens) + np.arange(n, dtype=np.int64)
        self.mem.write(self.region_of(tens), addrs, writer, self.ident(self.tid(tens), np.arange(n)))

    def check_linear_tensor(self, tens, who, operand):
        if tens is None or tens.mem_type not in (MemType.Scratch, MemType.Scratch_fast) or self.cpu_address(tens) is None:
            return
        n = tens.elements() * tens.element_size()
        addrs = self.cpu_address(tens) + np.arange(n, dtype=np.int64)
        self.check(self.region_of(tens), addrs, self.ident(self.tid(tens), np.arange(n)), who, operand)

    def check(self, region, addrs, expected, who, operand):
        w, i = self.mem.read(region, addrs)
        undefined = w == 0
        if undefined.any():
            k = int(np.argmax(undefined))
            self.violations.append(
                Violation(who[0], who[1], operand, "never defined", int(undefined.sum()), f"e.g. region {region} address {int(addrs[k])}")
            )
        if expected is not None:
            expected = np.broadcast_to(expected, i.shape)
            bad = (~undefined) & (i != 0) & (expected != 0) & (i != expected)
            if bad.any():
                k = int(np.argmax(bad))
                self.violations.append(
                    Violation(
                        who[0],
                        who[1],
                        operand,
                        "overwritten / not the expected datum",
                        int(bad.sum()),
                        f"e.g. region {region} address {int(addrs[k])} last written by '{self.writers.get(int(w[k]))}'",
                    )
                )

    def run(self):
        root = self.nng.get_root_subgraph()
        for tens in root.input_tensors:
            self.define_linear_tensor(tens, -1)
        for ps in root.passes:
            for op in ps.ops:
                if op.type in (Op.Const, Op.Placeholder, Op.SubgraphInput):
                    continue
                if op.type == Op.CustomNpuOp:
                    self.run_npu_subgraph(op.attrs["subgraph"])
                else:
                    wid = self.new_writer(f"CPU:{op.name}")
                    for idx, inp in enumerate(op.inputs):
                        if inp is not None:
                            self.check_linear_tensor(inp, (wid, f"CPU:{op.name}"), f"input{idx}")
                    for out in op.outputs:
                        self.define_linear_tensor(out, wid)
        for idx, tens in enumerate(root.output_tensors):
            self.check_linear_tensor(tens, (self.op_seq + 1, "<network output>"), f"output{idx}")
        return self.violations

    # ---- NPU side ----
    def run_npu_subgraph(self, sg):
        # decode the register command stream into the sequence of operations with the register state at their start
        words = list(sg.register_command_stream)
        regs = {}
        pos = 0
        ops = []
        while pos < len(words):
            word = int(words[pos])
            code = word & 0xFFFF
            param = (word >> 16) & 0xFFFF
            if code & 0xC000 == 0x4000:
                payload = int(words[pos + 1])
                pos += 2
                regs[cmd1(code & 0x3FF)] = payload | (param << 32)
                continue
            pos += 1
            c = cmd0(code & 0x3FF)
            if c in (
                cmd0.NPU_OP_CONV,
                cmd0.NPU_OP_DEPTHWISE,
                cmd0.NPU_OP_POOL,
                cmd0.NPU_OP_ELEMENTWISE,
                cmd0.NPU_OP_DMA_START,
            ):
                ops.append((c, param, dict(regs)))
            elif c in (cmd0.NPU_OP_STOP, cmd0.NPU_OP_DMA_WAIT, cmd0.NPU_OP_KERNEL_WAIT, cmd0.NPU_OP_IRQ, cmd0.NPU_OP_PMU_MASK):
                pass
            else:
                regs[c] = param
        # walk the high level commands (they tell which tensor / which part of it each operation is meant to access)
        idx = 0
        for cmd in sg.high_level_command_stream:
            if isinstance(cmd, HL_NOP):
                self.exec_nop(cmd)
                continue
            if isinstance(cmd, HL_Stripe) and cmd.ps.npu_block_type == NpuBlockType.Default:
                continue
            c, param, r = ops[idx]
            idx += 1
            if c == cmd0.NPU_OP_DMA_START:
                self.exec_dma(r, cmd)
            else:
                self.exec_block_op(c, param, r, cmd)
        assert idx == len(ops), (idx, len(ops))

    def exec_nop(self, cmd):
        # memory-only operation whose input and output share their storage: the bytes stay, they are now the output
        src, dst = cmd.in_tensor, cmd.out_tensor
        if src.address is None or dst.address is None:
            return
        n = src.elements() * src.element_size()
        region = self.region_of(src)
        addrs = src.address + np.arange(n, dtype=np.int64)
        w, i = self.mem.read(region, addrs)
        want = self.ident(self.tid(src), np.arange(n))
        new = np.where(i == want, self.ident(self.tid(dst), np.arange(n)), i)
        if dst.address == src.address and self.region_of(dst) == region:
            self.mem.ident[region][addrs] = new

    @staticmethod
    def _s16(v):
        return v - 0x10000 if v & 0x8000 else v

    def fm_addresses(self, regs, prefix, ys, xs, cs, elem_size, nhcwb16):
        """Addresses (first byte) of elements (y, x, c) of a feature map described by the xFM registers"""
        c0 = cmd0
        base = [regs.get(cmd1[f"NPU_SET_{prefix}_BASE{i}"], 0) for i in range(4)]
        h0 = regs.get(c0[f"NPU_SET_{prefix}_HEIGHT0_M1"], 0) + 1
        h1 = regs.get(c0[f"NPU_SET_{prefix}_HEIGHT1_M1"], 0) + 1
        w0 = regs.get(c0[f"NPU_SET_{prefix}_WIDTH0_M1"], 0) + 1
        sx = regs.get(cmd1[f"NPU_SET_{prefix}_STRIDE_X"], 0)
        sy = regs.get(cmd1[f"NPU_SET_{prefix}_STRIDE_Y"], 0)
        sc = regs.get(cmd1[f"NPU_SET_{prefix}_STRIDE_C"], 0)
        Y, X, C = np.meshgrid(np.asarray(ys, np.int64), np.asarray(xs, np.int64), np.asarray(cs, np.int64), indexing="ij")
        right = X >= w0
        Xl = np.where(right, X - w0, X)
        hsel = np.where(right, h1, h0)
        lower = Y >= hsel
        Yl = np.where(lower, Y - hsel, Y)
        tile = right.astype(np.int64) + 2 * lower.astype(np.int64)
        b = np.asarray(base, np.int64)[tile]
        if nhcwb16:
            addr = b + Yl * sy + Xl * (16 * elem_size) + (C // 16) * sc + (C % 16) * elem_size
        else:
            addr = b + Yl * sy + Xl * sx + C * elem_size
        return Y, X, C, addr

    @staticmethod
    def _bytes(addr, elem_size):
        a = addr.reshape(-1, 1) + np.arange(elem_size, dtype=np.int64).reshape(1, -1)
        return a.reshape(-1)

    def expected_fm_ident(self, tens, box, full_shape, Y, X, C, elem_size):
        if tens is None or box is None or not box.start_coord:
            return None
        start = [0] * (4 - len(box.start_coord)) + [int(v) for v in box.start_coord]
        shp = [int(v) for v in full_shape.as_list()]
        n = start[0]
        lin = ((n * shp[1] + (Y + start[1])) * shp[2] + (X + start[2])) * shp[3] + (C + start[3])
        outside = ((Y + start[1]) >= shp[1]) | ((X + start[2]) >= shp[2]) | ((C + start[3]) >= shp[3])
        byte_index = lin.reshape(-1, 1) * elem_size + np.arange(elem_size, dtype=np.int64).reshape(1, -1)
        ident = self.ident(self.tid(tens), byte_index)
        ident = np.where(outside.reshape(-1, 1), np.int64(-7), ident)  # outside the tensor: can never match
        return ident.reshape(-1)

    def exec_block_op(self, opc, op_param, regs, cmd):
        assert isinstance(cmd, HL_Stripe), cmd
        ps = cmd.ps
        op = ps.primary_op
        wid = self.new_writer(op.name)
        who = (wid, op.name)
        g = regs.get
        oh = g(cmd0.NPU_SET_OFM_HEIGHT_M1, 0) + 1
        ow = g(cmd0.NPU_SET_OFM_WIDTH_M1, 0) + 1
        od = g(cmd0.NPU_SET_OFM_DEPTH_M1, 0) + 1
        ifm_prec = g(cmd0.NPU_SET_IFM_PRECISION, 0)
        ifm_es = 1 << ((ifm_prec >> 2) & 3)
        ifm_b16 = bool((ifm_prec >> 6) & 1)
        ofm_prec = g(cmd0.NPU_SET_OFM_PRECISION, 0)
        ofm_es = 1 << ((ofm_prec >> 1) & 3)
        ofm_b16 = bool((ofm_prec >> 6) & 1)
        transposed_ofm = op.original_type == Op.Transpose
        exotic = transposed_ofm or (op.ofm_stride_multiplier not in (None, [1, 1, 1]))

        if opc == cmd0.NPU_OP_ELEMENTWISE:
            ys, xs, cs = np.arange(oh), np.arange(ow), np.arange(od)
        else:
            kh = g(cmd0.NPU_SET_KERNEL_HEIGHT_M1, 0) + 1
            kw = g(cmd0.NPU_SET_KERNEL_WIDTH_M1, 0) + 1
            ks = g(cmd0.NPU_SET_KERNEL_STRIDE, 0)
            sx = ((ks & 1) | (((ks >> 6) & 7) << 1)) + 1
            sy = (((ks >> 1) & 1) | (((ks >> 9) & 7) << 1)) + 1
            dx = ((ks >> 3) & 1) + 1
            dy = ((ks >> 4) & 1) + 1
            pt, pl = g(cmd0.NPU_SET_IFM_PAD_TOP, 0), g(cmd0.NPU_SET_IFM_PAD_LEFT, 0)
            pb, pr = g(cmd0.NPU_SET_IFM_PAD_BOTTOM, 0), g(cmd0.NPU_SET_IFM_PAD_RIGHT, 0)
            ups = 2 if g(cmd0.NPU_SET_IFM_UPSCALE, 0) in (1, 2) else 1
            ih_up = (oh - 1) * sy + kh - pt - pb
            iw_up = (ow - 1) * sx + kw - pl - pr
            rows = set()
            for o in range(oh):
                for k in range(0, kh, dy):
                    r = o * sy + k - pt
                    if 0 <= r < ih_up:
                        rows.add(r // ups)
            cols = set()
            for o in range(ow):
                for k in range(0, kw, dx):
                    r = o * sx + k - pl
                    if 0 <= r < iw_up:
                        cols.add(r // ups)
            ys, xs = np.array(sorted(rows)), np.array(sorted(cols))
            if opc == cmd0.NPU_OP_CONV or (opc == cmd0.NPU_OP_POOL and op_param == 2):
                cs = np.arange(g(cmd0.NPU_SET_IFM_DEPTH_M1, 0) + 1)
            else:
                cs = np.arange(od)

        # ---- IFM read ----
        ifm_region = g(cmd0.NPU_SET_IFM_REGION, 0)
        if ifm_region != REGION_FLASH:
            Y, X, C, addr = self.fm_addresses(regs, "IFM", ys, xs, cs, ifm_es, ifm_b16)
            exp = None
            tile_padding = op.attrs.get("padding", None) == Padding.TILE  # edges replicated through the tile bases
            if not (op.original_type == Op.Transpose or tile_padding):
                exp = self.expected_fm_ident(cmd.ifm_tensor, cmd.ifm_box, ps.ifm_shapes[0], Y.reshape(-1), X.reshape(-1), C.reshape(-1), ifm_es)
            self.check(ifm_region, self._bytes(addr, ifm_es), exp, who, "IFM")

        # ---- IFM2 read ----
        if opc == cmd0.NPU_OP_ELEMENTWISE and op_param not in (5, 6, 7):  # not LRELU/ABS/CLZ
            bc = g(cmd0.NPU_SET_IFM2_BROADCAST, 0)
            if not (bc & 0x80):
                ifm2_region = g(cmd0.NPU_SET_IFM2_REGION, 0)
                if ifm2_region != REGION_FLASH:
                    prec2 = g(cmd0.NPU_SET_IFM2_PRECISION, 0)
                    es2 = 1 << ((prec2 >> 2) & 3)
                    b16_2 = bool((prec2 >> 6) & 1)
                    ys2 = np.arange(1 if bc & 1 else oh)
                    xs2 = np.arange(1 if bc & 2 else ow)
                    cs2 = np.arange(1 if bc & 4 else od)
                    Y, X, C, addr = self.fm_addresses(regs, "IFM2", ys2, xs2, cs2, es2, b16_2)
                    exp = self.expected_fm_ident(
                        cmd.ifm2_tensor, cmd.ifm2_box, ps.ifm_shapes[1], Y.reshape(-1), X.reshape(-1), C.reshape(-1), es2
                    )
                    self.check(ifm2_region, self._bytes(addr, es2), exp, who, "IFM2")

        # ---- weights and scales ----
        if opc in (cmd0.NPU_OP_CONV, cmd0.NPU_OP_DEPTHWISE):
            self.check_weights(regs, cmd, who)

        # ---- LUT ----
        act = g(cmd0.NPU_SET_ACTIVATION, 0)
        lut_base = (self.arch.shram_size_bytes // 1024 - 2) * 1024
        if (act & 0x1F) >= 16:
            idx = (act & 0x1F) - 16
            lut = ps.lut_tensor
            lut_bytes = 256 if (lut is None or lut.values is None) else int(np.asarray(lut.values).size) * lut.element_size()
            addrs = lut_base + idx * 256 + np.arange(lut_bytes, dtype=np.int64)
            exp = None
            if lut is not None and lut.values is not None:
                exp = self.lut_ident(lut, len(addrs))
            self.check(REGION_SHRAM, addrs, exp, who, "LUT")
        elif self.arch.shram_reserved_unused_banks == 0:
            # accumulators / input buffers may use the last two banks: whatever table was there is gone
            self.mem.write(REGION_SHRAM, lut_base + np.arange(2048, dtype=np.int64), 0, 0)

        # ---- OFM write ----
        ofm_region = g(cmd0.NPU_SET_OFM_REGION, 0)
        Y, X, C, addr = self.fm_addresses(regs, "OFM", np.arange(oh), np.arange(ow), np.arange(od), ofm_es, ofm_b16)
        ident = None
        if not exotic:
            ident = self.expected_fm_ident(cmd.ofm_tensor, cmd.ofm_box, ps.ofm_shapes[0], Y.reshape(-1), X.reshape(-1), C.reshape(-1), ofm_es)
        self.mem.write(ofm_region, self._bytes(addr, ofm_es), wid, 0 if ident is None else np.where(ident < 0, 0, ident))
        self.log.append((wid, op.name, "block"))

    def check_weights(self, regs, cmd, who):
        g = regs.get
        wt = cmd.weight_tensor
        if wt is None:
            return
        w_src = wt.src_tensor if wt.src_tensor is not None else wt
        wregion = g(cmd0.NPU_SET_WEIGHT_REGION, 0)
        sregion = g(cmd0.NPU_SET_SCALE_REGION, 0)
        core_regs = [
            (cmd1.NPU_SET_WEIGHT_BASE, cmd1.NPU_SET_WEIGHT_LENGTH, cmd1.NPU_SET_SCALE_BASE, cmd1.NPU_SET_SCALE_LENGTH),
            (cmd1.NPU_SET_WEIGHT1_BASE, cmd1.NPU_SET_WEIGHT1_LENGTH, cmd1.NPU_SET_SCALE1_BASE, cmd1.NPU_SET_SCALE1_LENGTH),
        ]
        for core in range(self.arch.ncores):
            wb, wl, sb, sl = (g(r, 0) for r in core_regs[core])
            key = WeightKey(core, int(cmd.weight_box.start_coord[-1]))
            rng = w_src.encoded_ranges.get(key)
            if rng is None:
                if wl != 0:
                    self.violations.append(Violation(who[0], who[1], f"weights core{core}", "unexpected stream", wl, ""))
                continue
            exp_w = w_src.address + rng.offset + rng.weight_offset
            if cmd.scale_tensor is not None:
                srng = cmd.scale_tensor.encoded_ranges[key]
                exp_s = cmd.scale_tensor.address + srng.offset
            else:
                exp_s = w_src.address + rng.offset
            for region, base, length, exp, name in (
                (wregion, wb, wl, exp_w, "weights"),
                (sregion, sb, sl, exp_s, "scales"),
            ):
                if length == 0:
                    continue
                addrs = base + np.arange(length, dtype=np.int64)
                if region == REGION_FLASH:
                    if base != exp:
                        self.violations.append(
                            Violation(who[0], who[1], f"{name} core{core}", "foreign constant", length, f"reads flash {base}, its stream is at {exp}")
                        )
                else:
                    self.check(region, addrs, self.ident(FLASH_TID, exp + np.arange(length)), who, f"{name} core{core}")

    def memcpy_remap(self, cmd):
        src = cmd.in_tensor
        es = src.element_size()
        total = src.elements() * es
        op = cmd.ps.primary_op
        ro = op.read_offsets[0] if op is not None else None
        rs = op.read_shapes[0] if op is not None else None
        if ro is None or rs is None:
            return np.arange(total, dtype=np.int64)
        full = [int(v) for v in cmd.ps.ifm_shapes[0].as_list()]
        ro = [int(v) for v in ro.as_list()]
        rs = [int(v) for v in rs.as_list()]
        idx = np.arange(int(np.prod(full)), dtype=np.int64).reshape(full)
        sl = idx[ro[0] : ro[0] + rs[0], ro[1] : ro[1] + rs[1], ro[2] : ro[2] + rs[2], ro[3] : ro[3] + rs[3]].reshape(-1)
        remap_el = np.full(int(np.prod(full)), -1, dtype=np.int64)
        remap_el[sl] = np.arange(len(sl), dtype=np.int64)
        remap = np.repeat(remap_el, es) * es
        remap = np.where(remap >= 0, remap + np.tile(np.arange(es, dtype=np.int64), len(remap_el)), -1)
        return remap

    def exec_dma(self, regs, cmd):
        g = regs.get
        sreg, dreg = g(cmd0.NPU_SET_DMA0_SRC_REGION, 0), g(cmd0.NPU_SET_DMA0_DST_REGION, 0)
        src, dst, ln = g(cmd1.NPU_SET_DMA0_SRC, 0), g(cmd1.NPU_SET_DMA0_DST, 0), g(cmd1.NPU_SET_DMA0_LEN, 0)
        name = f"DMA->{cmd.out_tensor.name}" if isinstance(cmd, HL_DMA) else "DMA"
        wid = self.new_writer(name)
        who = (wid, name)
        offs = np.arange(ln, dtype=np.int64)
        if sreg == REGION_FLASH and isinstance(cmd, HL_DMA) and cmd.out_tensor.purpose == TensorPurpose.LUT:
            idents = self.lut_ident(cmd.in_tensor, ln)
        elif sreg == REGION_FLASH:
            idents = self.ident(FLASH_TID, src + offs)
        else:
            # feature map copy: only the bytes of the tensor proper need to be defined
            n = ln
            exp = None
            if isinstance(cmd, HL_DMA) and cmd.in_tensor.purpose == TensorPurpose.FeatureMap:
                n = min(ln, cmd.in_tensor.elements() * cmd.in_tensor.element_size())
                exp = self.ident(self.tid(cmd.in_tensor), np.arange(n))
            self.check(sreg, src + offs[:n], exp, who, "DMA source")
            idents = np.zeros(ln, dtype=np.int64)
            if isinstance(cmd, HL_DMA):
                _, src_id = self.mem.read(sreg, src + offs[:n])
                base_in = self.ident(self.tid(cmd.in_tensor), 0)
                base_out = self.ident(self.tid(cmd.out_tensor), 0)
                belongs = (src_id >= base_in) & (src_id < base_in + (np.int64(1) << np.int64(40)))
                # byte j of the source tensor is byte remap[j] of the destination tensor (-1: not part of it); this
                # is the identity unless the copy is meant to take a slice (read offset / read shape) of the source
                remap = self.memcpy_remap(cmd)
                j = np.clip(src_id - base_in, 0, len(remap) - 1)
                k = remap[j]
                idents[:n] = np.where(belongs & (k >= 0), base_out + k, np.where(belongs, np.int64(-9), src_id))
        self.mem.write(dreg, dst + offs, wid, idents)
        self.log.append((wid, name, "dma"))


def check_compiled(nng, arch, use_output_file=True):
    placement = None
    if use_output_file and getattr(nng, "c03_output_file", None) and os.path.exists(nng.c03_output_file):
        placement = read_offline_allocation(nng.c03_output_file)
    ex = Executor(nng, arch, placement)
    violations = ex.run()
    if getattr(nng, "c03_output_file", None):
        import shutil

        shutil.rmtree(os.path.dirname(nng.c03_output_file), ignore_errors=True)
    return violations, ex


# =============================================================================================
# observation 2 (UNMODIFIED tree): SPLIT / STRIDED_SLICE output consumed by SOFTMAX (or MEAN).
# tflite_graph_optimiser.remove_SplitSliceRead() folds the slice into its consumer through
# graph_optimiser_util.move_splitsliceread_to_consumer(), which overwrites cons_op.ifm_shapes[0] with the shape of the
# un-sliced tensor.  The operators that the SOFTMAX / MEAN lowering creates view their input through a reshaped
# IFM shape (e.g. 1 x (H*W) x C x 1); after the overwrite their strides and boxes are computed from the wrong shape
# (and the sliced tensor may even be in NHCWB16 format), so the first operator of the lowered sequence reads far
# outside the tensor: arena bytes that were never defined or that belong to other tensors.
# =============================================================================================
def net_softmax_after_split(axis):
    n = Net(seed=6)
    x = n.input([1, 8, 8, 32 if axis == 3 else 16])
    a, b = n.split(x, 2, axis)
    y = n.softmax(a)
    return n.build([y, b])


def net_softmax_after_slice():
    n = Net(seed=7)
    x = n.input([1, 8, 8, 16])
    c = n.conv(x, 16, 3)
    a = n.strided_slice(c, [0, 2, 0, 0], [1, 8, 8, 16])
    y = n.softmax(a)
    return n.build([y])


def net_mean_after_split():
    n = Net(seed=8)
    x = n.input([1, 256, 8, 8])
    c = n.conv(x, 24, 3)
    a, b = n.split(c, 2, 1)
    y = n.mean(a)
    return n.build([y, b])


def net_softmax_control():
    n = Net(seed=9)
    x = n.input([1, 4, 8, 16])
    y = n.softmax(x)
    return n.build([y])


def main():
    seen = 0
    for title, model in (
        ("softmax of the first half (split along H)", net_softmax_after_split(1)),
        ("softmax of the first half (split along W)", net_softmax_after_split(2)),
        ("softmax of the first half (split along C)", net_softmax_after_split(3)),
        ("softmax of a strided slice of a convolution output", net_softmax_after_slice()),
        ("mean of the first half (split along H) of a convolution output", net_mean_after_split()),
        ("control: softmax of a whole tensor", net_softmax_control()),
    ):
        nng, arch = compile_model(model)
        violations, ex = check_compiled(nng, arch)
        print(f"{title}: {len(violations)} violation(s)")
        for v in violations[:3]:
            print("    ", v)
        seen += bool(violations)
    if seen:
        print("OBSERVED: NPU operations read undefined / foreign bytes when SOFTMAX or MEAN consumes a SPLIT / SLICE output")
        return 1
    print("not observed")
    return 0


if __name__ == "__main__":
    sys.exit(main())

import sys
exec(open("/verif/tools/triage/F33_F36_c13_batch.py").read().split("# (1) custom op")[0])
a = fm("a", [1, 8, 8, 8], 0.05)
ax = create_const_tensor("axis", [], DataType.int32, np.array(3))
o = Tensor([1, 8, 8], DataType.int32, "o")
op = Operation(Op.ArgMax, "argmax"); op.attrs = {"output_type": 2}
op.add_input_tensor(a); op.add_input_tensor(ax); op.set_output_tensor(o)
run("ARG_MAX int8 axis 3", make_model([op], [a], [o]))

"""Observation 1 (UNMODIFIED tree): --tensor-allocator Greedy is not deterministic when two live ranges tie completely.

greedy_allocation.GreedyAllocator.allocate_live_ranges() puts (start_time, -end_time, lr) tuples into a *set* and sorts
them. LiveRange.__lt__ compares start, end, size and finally the NAME of the first tensor; if two live ranges agree on
all four the sort keeps the set's iteration order, which depends on the objects' addresses (hash of the LiveRange
objects), and that differs from run to run. A network with two equally named, equally sized graph inputs that are live
over the same interval (two inputs of one elementwise operator; tensor names need not be unique in a .tflite file, e.g.
stripped models) therefore gets the two inputs at swapped arena addresses in different runs: the output .tflite
(command stream + OfflineMemoryAllocation metadata) and the summary CSV differ between identical invocations.

Run: cd /tmp/seed5/C14 && /venv/bin/python out/observation1.py   (exit 1 = nondeterminism observed)
"""
import contextlib
import csv
import glob
import hashlib
import io
import os
import subprocess
import sys
import tempfile
import types

sys.path.insert(0, os.getcwd())

import numpy as np

from ethosu.vela import tflite_writer
from ethosu.vela import vela
from ethosu.vela.data_type import DataType
from ethosu.vela.nn_graph import Graph, PassPlacement, Subgraph
from ethosu.vela.operation import Op, Operation, Padding
from ethosu.vela.tensor import QuantizationParameters, Tensor


def qp(scale, zp, dim=None):
    q = QuantizationParameters()
    q.scale_f32 = np.atleast_1d(np.asarray(scale, dtype=np.float32))
    q.zero_point = np.atleast_1d(np.asarray(zp, dtype=np.int64))
    if dim is not None:
        q.quant_dim = dim
    return q


class Net:
    """Builds a small int8 .tflite model in memory with Vela's own classes"""

    def __init__(self, name, seed):
        self.rng = np.random.RandomState(seed)
        self.name, self.ops, self.inputs, self.n = name, [], [], 0

    def uid(self, base):
        self.n += 1
        return f"{base}_{self.n}"

    def fm(self, shape, scale=0.05, zp=0, name=None):
        t = Tensor(list(shape), DataType.int8, name or self.uid("t"))
        t.quantization = qp(scale, zp)
        return t

    def input(self, shape):
        t = self.fm(shape, name=self.uid("input"))
        Operation(Op.Placeholder, t.name).set_output_tensor(t)
        self.inputs.append(t)
        return t

    def const(self, values, dtype, scale, zp, dim=None):
        values = np.asarray(values).astype(dtype.as_numpy_type())
        t = Tensor(list(values.shape), dtype, self.uid("const"))
        t.values = values
        t.quantization = qp(scale, zp, dim)
        Operation(Op.Const, t.name).set_output_tensor(t)
        return t

    def conv(self, ifm, ofm_c, kh, kw, act=None):
        n, h, w, c = ifm.shape
        ws = self.rng.rand(ofm_c) * 0.01 + 0.001
        wt = self.const(self.rng.randint(-127, 128, size=(ofm_c, kh, kw, c)), DataType.int8, ws, np.zeros(ofm_c), 0)
        bt = self.const(self.rng.randint(-1000, 1000, size=(ofm_c,)), DataType.int32, ws * 0.05, np.zeros(ofm_c))
        ofm = self.fm([n, h, w, ofm_c], 0.07)
        op = Operation(Op.Conv2DBias, self.uid("conv"))
        for t in (ifm, wt, bt):
            op.add_input_tensor(t)
        op.set_output_tensor(ofm)
        op.attrs = {
            "padding": Padding.SAME,
            "stride_w": 1,
            "stride_h": 1,
            "dilation_w_factor": 1,
            "dilation_h_factor": 1,
            "fused_activation_function": act,
        }
        op.version = 3
        self.ops.append(op)
        return ofm

    def build(self, outputs):
        nng = Graph(self.name)
        sg = Subgraph(self.name, PassPlacement.Cpu)
        sg.original_inputs = list(self.inputs)
        sg.input_tensors = list(self.inputs)
        sg.output_tensors = list(outputs)
        sg.passes = [types.SimpleNamespace(ops=[o]) for o in self.ops]
        nng.subgraphs.append(sg)
        return bytearray(tflite_writer.write_tflite_buffer(nng))



def add_op(n, optype, a, b, name):
    ofm = n.fm(a.shape, 0.1, 3, name=name)
    op = Operation(optype, name)
    op.add_input_tensor(a)
    op.add_input_tensor(b)
    op.set_output_tensor(ofm)
    op.attrs = {"fused_activation_function": None}
    if optype in (Op.Add, Op.Sub):
        op.attrs["pot_scale_int16"] = False
    op.version = 2
    n.ops.append(op)
    return ofm


def model():
    n = Net("net", 9)
    n.uid = lambda base: "in" if base == "input" else base  # both inputs are called "in"
    x = n.input([1, 8, 8, 16])
    y = n.input([1, 8, 8, 16])
    a = add_op(n, Op.Add, x, y, "a")
    b = add_op(n, Op.Mul, x, y, "b")
    c = add_op(n, Op.Add, a, b, "c")
    return n.build([c])


def child():
    data = model()
    with tempfile.TemporaryDirectory() as workdir:
        path = os.path.join(workdir, "net.tflite")
        with open(path, "wb") as f:
            f.write(data)
        outdir = os.path.join(workdir, "out")
        with contextlib.redirect_stdout(io.StringIO()):
            rc = vela.main([path, "--tensor-allocator", "Greedy", "--output-dir", outdir])
        assert rc == 0
        with open(os.path.join(outdir, "net_vela.tflite"), "rb") as f:
            out = f.read()
        with open(glob.glob(os.path.join(outdir, "net_summary_*.csv"))[0]) as f:
            rows = list(csv.reader(f))
    print("RESULT", hashlib.sha256(out).hexdigest()[:16], hashlib.sha256(repr(rows).encode()).hexdigest()[:16])
    return 0


def main():
    results = []
    for i in range(10):
        res = subprocess.run([sys.executable, os.path.abspath(__file__), "--child"], capture_output=True, text=True)
        line = [ln for ln in res.stdout.splitlines() if ln.startswith("RESULT")]
        assert line, res.stdout + res.stderr
        results.append(tuple(line[0].split()[1:]))
    distinct = sorted(set(results))
    for r in distinct:
        print(f"output sha256 {r[0]}  summary sha256 {r[1]}  seen {results.count(r)}x")
    if len(distinct) > 1:
        print("NONDETERMINISTIC: identical command lines (--tensor-allocator Greedy) produced different outputs")
        return 1
    print("all 10 runs identical")
    return 0


if __name__ == "__main__":
    if len(sys.argv) == 2 and sys.argv[1] == "--child":
        sys.exit(child())
    sys.exit(main())

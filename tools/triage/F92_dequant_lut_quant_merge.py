"""Observation 4 (unmodified tree): operators that satisfy every constraint listed for them are neither placed on the
NPU nor left on the CPU - the compilation aborts with an exception.  Each case is a single-operator network
(except g) compiled with `vela <model> --accelerator-config ethos-u55-128`; no warning about a constraint is printed.

 a) CONV_2D int16 with int64 bias value 2**40 - 1: constraint_bias_40bit counts the binary digits of the magnitude
    (len(bin(v)[2:]) <= 40), i.e. accepts unsigned 40-bit values, the weight compressor asserts a signed 40-bit range.
 b) RESIZE_BILINEAR / RESIZE_NEAREST_NEIGHBOR with align_corners=True and IFM 1x4 -> OFM 1x7: constraint_resize computes
    (ofm_h - 1) / (ifm_h - 1) = 0/0 = nan and int(nan) raises ValueError inside the supported-operator check.
 c) TRANSPOSE of an int32 tensor without quantisation parameters (TRANSPOSE is exempt from "must have quantization
    parameters" and int32 is allowed for TRANSPOSE): AttributeError in register_command_stream_generator.
 d) CONCATENATION with fused RELU (fused activation of that type is listed as allowed): AssertionError in pass_packing
    (unfuse_activation_function adds a Relu after the concat's avgpool writers that cannot be packed).
 e) ADD whose second input has scale 1e30 and output scale 1e-30 ("quantization scales must fit within float32 precision"
    only looks at IFM/OFM, not IFM2): OverflowError in scaling.py.
 f) EXP int16 with input scale 0.5: OverflowError (math range error) in lut.py while building the table.
 g) DEQUANTIZE -> EXP -> QUANTIZE on uint8: merge_dequant_lut_quant fuses the three CPU operators into a uint8 EXP without
    the semantic check (EXP: "IFM must be int8 or int16"); convert_ops_to_lut then asserts.
 h) CONV_2D with 2 convolution groups (IFM depth 8, filter depth 4): convert_conv_groups creates a split axis tensor of
    shape [0] with values [-1]; Operation.get_split_inputs_axis does int(axis_tens.values) which NumPy 2.x rejects.
"""
import os
import sys

sys.path.insert(0, os.getcwd())
sys.path.insert(0, os.path.dirname(os.path.abspath(__file__)))
from kit import *  # noqa: E402,F401,F403  (out/kit.py: tiny model builder + compile_model helper)
from ethosu.vela.operation import Padding  # noqa: E402


def quiet_compile(buf, accel="ethos-u55-128", extra=()):
    devnull = os.open(os.devnull, os.O_WRONLY)
    saved = os.dup(1)
    os.dup2(devnull, 1)
    try:
        return compile_model(buf, accel, extra)
    finally:
        os.dup2(saved, 1)


def warnings_of(out):
    return [ln for ln in out.splitlines() if ln.startswith("Warning") or ln.startswith(" - ")]

import traceback  # noqa: E402

I8, U8, I16, I32, I64, F32 = (DataType.int8, DataType.uint8, DataType.int16, DataType.int32, DataType.int64,
                              DataType.float32)


def conv(dtype=I8, bias_dtype=I32, bias_vals=None, ifm_c=4, kernel_ic=4, oc=4):
    x = act("x", [1, 8, 8, ifm_c], dtype)
    y = act("y", [1, 8, 8, oc], dtype)
    w = const("w", [oc, 3, 3, kernel_ic], I8, np.ones([oc, 3, 3, kernel_ic]), scale=[0.5] * oc, zp=[0] * oc)
    b = const("b", [oc], bias_dtype, bias_vals if bias_vals is not None else np.zeros([oc]), scale=[0.25] * oc, zp=[0] * oc)
    attrs = {"dilation_h_factor": 1, "dilation_w_factor": 1, "fused_activation_function": None,
             "padding": Padding.SAME, "stride_h": 1, "stride_w": 1}
    return build([mkop(Op.Conv2DBias, "y", [x, w, b], y, attrs)], [x], [y])


def resize(optype):
    x = act("x", [1, 1, 4, 4])
    y = act("y", [1, 1, 7, 4])
    sz = const("size", [2], I32, [1, 7])
    return build([mkop(optype, "y", [x, sz], y, {"align_corners": True, "half_pixel_centers": False})], [x], [y])


def transpose_i32():
    x = act("x", [8, 4], I32, quant=False)
    y = act("y", [4, 8], I32, quant=False)
    return build([mkop(Op.Transpose, "y", [x, const("perm", [2], I32, [1, 0])], y, {})], [x], [y])


def concat_relu():
    xs = [act(f"x{i}", [1, 8, 8, 4]) for i in range(2)]
    y = act("y", [1, 8, 8, 8])
    return build([mkop(Op.ConcatTFLite, "y", xs, y, {"axis": 3, "fused_activation_function": Op.Relu})], xs, [y])


def add_huge_scale():
    a = act("a", [1, 8, 8, 4], I8, 0.5)
    b = act("b", [1, 8, 8, 4], I8, 1e30)
    y = act("y", [1, 8, 8, 4], I8, 1e-30)
    return build([mkop(Op.Add, "y", [a, b], y, {"fused_activation_function": None, "pot_scale_int16": False})], [a, b], [y])


def exp_i16():
    x = act("x", [1, 8, 8, 4], I16, 0.5)
    y = act("y", [1, 8, 8, 4], I16, 0.5)
    return build([mkop(Op.Exp, "y", [x], y, {})], [x], [y])


def dq_exp_q_u8():
    x = act("x", [1, 8, 8, 4], U8, 0.05)
    f1 = act("f1", [1, 8, 8, 4], F32, quant=False)
    f2 = act("f2", [1, 8, 8, 4], F32, quant=False)
    y = act("y", [1, 8, 8, 4], U8, 0.05)
    ops = [mkop(Op.Dequantize, "f1", [x], f1, {}), mkop(Op.Exp, "f2", [f1], f2, {}), mkop(Op.Quantize, "y", [f2], y, {})]
    return build(ops, [x], [y])


cases = [
    ("a) CONV_2D int16, int64 bias 2**40-1", conv(I16, I64, [(1 << 40) - 1, 0, 0, 0])),
    ("b) RESIZE_BILINEAR align_corners 1x4 -> 1x7", resize(Op.ResizeBilinear)),
    ("b) RESIZE_NEAREST_NEIGHBOR align_corners 1x4 -> 1x7", resize(Op.ResizeNearestNeighbor)),
    ("c) TRANSPOSE int32 without quantisation", transpose_i32()),
    ("d) CONCATENATION with fused RELU", concat_relu()),
    ("e) ADD with IFM2 scale 1e30 / OFM scale 1e-30", add_huge_scale()),
    ("f) EXP int16 scale 0.5", exp_i16()),
    ("g) DEQUANTIZE -> EXP -> QUANTIZE uint8", dq_exp_q_u8()),
    ("h) CONV_2D with 2 convolution groups", conv(ifm_c=8, kernel_ic=4, oc=4)),
]
crashes = 0
for name, buf in cases:
    try:
        ops, out, _ = quiet_compile(buf)
        print(f"{name}: compiled, output operators {ops}")
    except BaseException as e:  # noqa: B036  (vela may call sys.exit)
        crashes += 1
        tb = traceback.extract_tb(e.__traceback__)[-1]
        print(f"{name}: CRASH {type(e).__name__}: {e}  at {os.path.basename(tb.filename)}:{tb.lineno} ({tb.name})")
print(f"{crashes} of {len(cases)} networks abort the compiler")
sys.exit(1 if crashes else 0)

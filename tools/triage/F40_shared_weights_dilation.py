import os, sys
sys.path.insert(0, os.getcwd()); sys.path.insert(0, "out")
import numpy as np
import demo3 as d
from ethosu.vela import architecture_features as af, compiler_driver, model_reader, scheduler, tflite_writer
from ethosu.vela.nn_graph import Graph, Pass, PassPlacement, Subgraph
from ethosu.vela.operation import NpuBlockType, Op, Operation, Padding
from ethosu.vela.tensor import create_const_tensor
from ethosu.vela.data_type import DataType
from ethosu.vela.tensor_allocation import TensorAllocator
from ethosu.vela import weight_compressor as wc

C, K = 16, 3
rng = np.random.default_rng(7)
def fm(name, s, hw=16):
    from ethosu.vela.tensor import Tensor
    t = Tensor([1, hw, hw, C], DataType.int8, name); t.quantization = d.qp(s); return t
x, y1, y2 = fm("x", 0.5), fm("y1", 0.25), fm("y2", 0.125)
wv = rng.integers(-127, 128, size=(C, K, K, C))
w = create_const_tensor("w", [C, K, K, C], DataType.int8, wv, quantization=d.qp(0.01))
ta = create_const_tensor("bA", [C], DataType.int32, rng.integers(-5000, 5000, size=(C,)), quantization=d.qp(0.005))
tb = create_const_tensor("bB", [C], DataType.int32, rng.integers(-5000, 5000, size=(C,)), quantization=d.qp(0.0025))
ops = []
for name, i, b, o, dil in (("convA", x, ta, y1, int(sys.argv[1])), ("convB", y1, tb, y2, int(sys.argv[2]))):
    op = Operation(Op.Conv2DBias, name)
    op.attrs = {"padding": Padding.SAME, "stride_w": 1, "stride_h": 1, "dilation_w_factor": dil, "dilation_h_factor": dil, "fused_activation_function": None}
    op.add_input_tensor(i); op.add_input_tensor(w); op.add_input_tensor(b); op.set_output_tensor(o); ops.append(op)
sg = Subgraph("main", PassPlacement.Cpu); sg.input_tensors = [x]; sg.original_inputs = [x]; sg.output_tensors = [y2]
ps = Pass("p", PassPlacement.Cpu, False, NpuBlockType.Default); ps.ops = ops; sg.passes = [ps]
nng = Graph("m"); nng.subgraphs = [sg]
model = bytearray(tflite_writer.write_tflite_buffer(nng))
arch = af.ArchitectureFeatures(vela_config_files=None, system_config=af.ArchitectureFeatures.DEFAULT_CONFIG, memory_mode=af.ArchitectureFeatures.DEFAULT_CONFIG,
    accelerator_config="ethos-u55-128", max_blockdep=af.ArchitectureFeatures.MAX_BLOCKDEP, verbose_config=False, arena_cache_size=None)
copts = compiler_driver.CompilerOptions(tensor_allocator=TensorAllocator.HillClimb, output_dir="out/tmp")
sopts = scheduler.SchedulerOptions(optimization_strategy=scheduler.OptimizationStrategy.Performance, sram_target=arch.arena_cache_size, verbose_schedule=False)
nng, nt = model_reader.read_tflite_model(model, model_reader.ModelReaderOptions())
compiler_driver.compiler_driver(nng, arch, copts, sopts, nt, "out/tmp/m")
for sg in nng.subgraphs:
    if sg.placement == PassPlacement.Npu:
        for so in sg.sched_ops:
            c = sg.schedule.cost_map[so]
            wt = c.npu_weights_tensor
            print(so.name, so.parent_op.type, "kernel", so.kernel.width, so.kernel.height, so.kernel.dilation, "wshape", so.parent_op.weights.shape, "value_id", str(so.parent_op.weights.value_id)[:8],
                  "enc", id(wt) % 100000, len(wt.buffer), "block", c.block_config.ofm_block, "scales", c.npu_scales_tensor is not None)

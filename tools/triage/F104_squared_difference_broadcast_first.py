#!/usr/bin/env python3
# C02 observation 1 (UNMODIFIED tree): SQUARED_DIFFERENCE whose FIRST operand is the broadcast one.
#
# convert_squared_difference (tflite_graph_optimiser.py) clones the intermediate tensors "raw_diff" and "squared_raw" from
# the first operand (ifm.clone), so with a = [1,1,1,16] and b = [1,200,200,16] the subtraction and the square are done on
# 1x1x16 tensors and the final "x output_multiplier" MUL has an OFM (200x200x16) that is bigger than both of its inputs
# (squared_raw 1x1x16 and the [1]-shaped multiplier constant).  generate_ifm2_broadcast compares IFM with IFM2 (not with the
# OFM), finds H and W equal (1 == 1) and does not set the H/W broadcast bits, so the NPU reads the multiplier constant as a
# 200x200x1 feature map: with the emitted strides (4/4 bytes) and tiles that is far beyond the published constants tensor.
# (The result is also numerically wrong; swapping the operands, b first, compiles correctly.)
#
# Run as:  cd /tmp/seed7/C02 && /venv/bin/python out/observation1.py     (prints the violations, exit status 1)
import contextlib
import io
import os
import shutil
import struct
import sys
import tempfile

import flatbuffers
import numpy as np

sys.path.insert(0, os.getcwd())

from ethosu.vela.tflite import Buffer as fbBuffer  # noqa: E402
from ethosu.vela.tflite import Model as fbModel  # noqa: E402
from ethosu.vela.tflite import Operator as fbOperator  # noqa: E402
from ethosu.vela.tflite import OperatorCode as fbOperatorCode  # noqa: E402
from ethosu.vela.tflite import QuantizationParameters as fbQuant  # noqa: E402
from ethosu.vela.tflite import SubGraph as fbSubGraph  # noqa: E402
from ethosu.vela.tflite import Tensor as fbTensor  # noqa: E402
from ethosu.vela.tflite.BuiltinOperator import BuiltinOperator as BO  # noqa: E402
from ethosu.vela.tflite.BuiltinOptions import BuiltinOptions as BOpt  # noqa: E402
from ethosu.vela.tflite.TensorType import TensorType as TT  # noqa: E402

NP2TT = {np.int8: TT.INT8, np.uint8: TT.UINT8, np.int16: TT.INT16, np.int32: TT.INT32, np.int64: TT.INT64}


# ---------------------------------------------------------------------------------------------------------------------
# Minimal TFLite writer
# ---------------------------------------------------------------------------------------------------------------------
class TFL:
    def __init__(self):
        self.tensors = []
        self.ops = []
        self.buffers = [None]

    def tensor(self, name, shape, dtype=np.int8, data=None, scale=0.05, zp=0):
        buf = 0
        if data is not None:
            data = np.asarray(data, dtype=dtype).reshape(shape)
            self.buffers.append(data.tobytes())
            buf = len(self.buffers) - 1
        else:
            self.buffers.append(None)
            buf = len(self.buffers) - 1
        self.tensors.append((name, list(shape), NP2TT[dtype], buf, scale, zp))
        return len(self.tensors) - 1

    def const(self, name, shape, dtype=np.int8, scale=0.05, zp=0, seed=1, lo=None, hi=None):
        rng = np.random.RandomState(seed)
        info = np.iinfo(dtype)
        lo = max(info.min, -127) if lo is None else lo
        hi = min(info.max, 127) if hi is None else hi
        return self.tensor(name, shape, dtype, rng.randint(lo, hi + 1, size=shape), scale, zp)

    def op(self, code, inputs, outputs, opt_type=0, opt=None):
        # opt: list of (slot, kind, value) with kind in 'i8','i32','bool','f32', 'vec_i32'
        self.ops.append((code, list(inputs), list(outputs), opt_type, opt or [], None))

    def _opts(self, b, nslots, opt):
        vec_offsets = {}
        for slot, kind, value in opt:
            if kind == "vec_i32":
                b.StartVector(4, len(value), 4)
                for v in reversed(value):
                    b.PrependInt32(v)
                vec_offsets[slot] = b.EndVector()
        b.StartObject(nslots)
        for slot, kind, value in opt:
            if kind == "i8":
                b.PrependInt8Slot(slot, value, -99)
            elif kind == "i32":
                b.PrependInt32Slot(slot, value, -999999)
            elif kind == "bool":
                b.PrependBoolSlot(slot, value, None)
            elif kind == "f32":
                b.PrependFloat32Slot(slot, value, None)
            elif kind == "vec_i32":
                b.PrependUOffsetTRelativeSlot(slot, vec_offsets[slot], 0)
        return b.EndObject()

    def build(self, inputs, outputs):
        b = flatbuffers.Builder(1024)
        # buffers
        buf_offs = []
        for data in self.buffers:
            vec = None
            if data is not None and len(data) > 0:
                b.StartVector(1, len(data), 16)
                b.head = b.head - len(data)
                b.Bytes[b.head : b.head + len(data)] = data
                vec = b.EndVector()
            fbBuffer.BufferStart(b)
            if vec is not None:
                fbBuffer.BufferAddData(b, vec)
            buf_offs.append(fbBuffer.BufferEnd(b))
        fbModel.ModelStartBuffersVector(b, len(buf_offs))
        for o in reversed(buf_offs):
            b.PrependUOffsetTRelative(o)
        buffers_vec = b.EndVector()

        # operator codes
        codes = sorted(set(op[0] for op in self.ops))
        code_offs = []
        for c in codes:
            fbOperatorCode.OperatorCodeStart(b)
            fbOperatorCode.OperatorCodeAddDeprecatedBuiltinCode(b, min(c, 127))
            fbOperatorCode.OperatorCodeAddBuiltinCode(b, c)
            fbOperatorCode.OperatorCodeAddVersion(b, 1)
            code_offs.append(fbOperatorCode.OperatorCodeEnd(b))
        fbModel.ModelStartOperatorCodesVector(b, len(code_offs))
        for o in reversed(code_offs):
            b.PrependUOffsetTRelative(o)
        codes_vec = b.EndVector()

        # tensors
        tens_offs = []
        for name, shape, tt, buf, scale, zp in self.tensors:
            nm = b.CreateString(name)
            b.StartVector(4, len(shape), 4)
            for v in reversed(shape):
                b.PrependInt32(v)
            shp = b.EndVector()
            q = None
            if scale is not None:
                scales = np.atleast_1d(np.asarray(scale, dtype=np.float32))
                zps = np.atleast_1d(np.asarray(zp, dtype=np.int64))
                b.StartVector(4, len(scales), 4)
                for v in reversed(scales):
                    b.PrependFloat32(float(v))
                sv = b.EndVector()
                b.StartVector(8, len(zps), 8)
                for v in reversed(zps):
                    b.PrependInt64(int(v))
                zv = b.EndVector()
                fbQuant.QuantizationParametersStart(b)
                fbQuant.QuantizationParametersAddScale(b, sv)
                fbQuant.QuantizationParametersAddZeroPoint(b, zv)
                q = fbQuant.QuantizationParametersEnd(b)
            fbTensor.TensorStart(b)
            fbTensor.TensorAddShape(b, shp)
            fbTensor.TensorAddType(b, tt)
            fbTensor.TensorAddBuffer(b, buf)
            fbTensor.TensorAddName(b, nm)
            if q is not None:
                fbTensor.TensorAddQuantization(b, q)
            tens_offs.append(fbTensor.TensorEnd(b))
        fbSubGraph.SubGraphStartTensorsVector(b, len(tens_offs))
        for o in reversed(tens_offs):
            b.PrependUOffsetTRelative(o)
        tens_vec = b.EndVector()

        def ivec(v):
            b.StartVector(4, len(v), 4)
            for x in reversed(v):
                b.PrependInt32(x)
            return b.EndVector()

        op_offs = []
        for code, ins, outs, opt_type, opt, _ in self.ops:
            iv = ivec(ins)
            ov = ivec(outs)
            oo = None
            if opt_type:
                nslots = max([s for s, _, _ in opt] + [0]) + 1
                oo = self._opts(b, nslots, opt)
            fbOperator.OperatorStart(b)
            fbOperator.OperatorAddOpcodeIndex(b, codes.index(code))
            fbOperator.OperatorAddInputs(b, iv)
            fbOperator.OperatorAddOutputs(b, ov)
            if oo is not None:
                fbOperator.OperatorAddBuiltinOptionsType(b, opt_type)
                fbOperator.OperatorAddBuiltinOptions(b, oo)
            op_offs.append(fbOperator.OperatorEnd(b))
        fbSubGraph.SubGraphStartOperatorsVector(b, len(op_offs))
        for o in reversed(op_offs):
            b.PrependUOffsetTRelative(o)
        ops_vec = b.EndVector()
        in_vec = ivec(inputs)
        out_vec = ivec(outputs)
        sgname = b.CreateString("main")
        fbSubGraph.SubGraphStart(b)
        fbSubGraph.SubGraphAddTensors(b, tens_vec)
        fbSubGraph.SubGraphAddInputs(b, in_vec)
        fbSubGraph.SubGraphAddOutputs(b, out_vec)
        fbSubGraph.SubGraphAddOperators(b, ops_vec)
        fbSubGraph.SubGraphAddName(b, sgname)
        sg = fbSubGraph.SubGraphEnd(b)
        fbModel.ModelStartSubgraphsVector(b, 1)
        b.PrependUOffsetTRelative(sg)
        sgs_vec = b.EndVector()
        desc = b.CreateString("c02 demo model")
        fbModel.ModelStart(b)
        fbModel.ModelAddVersion(b, 3)
        fbModel.ModelAddOperatorCodes(b, codes_vec)
        fbModel.ModelAddSubgraphs(b, sgs_vec)
        fbModel.ModelAddDescription(b, desc)
        fbModel.ModelAddBuffers(b, buffers_vec)
        m = fbModel.ModelEnd(b)
        b.Finish(m, b"TFL3")
        return bytes(b.Output())

    # ---- convenience operator constructors -------------------------------------------------------------------------
    PAD_SAME, PAD_VALID = 0, 1

    def conv2d(self, ifm, ofm_name, ifm_shape, ofm_c, k=(3, 3), stride=(1, 1), padding=0, dilation=(1, 1), act=0,
               dtype=np.int8, seed=1, ofm_scale=0.1):
        n, h, w, c = ifm_shape
        wt = self.const(ofm_name + "_w", [ofm_c, k[0], k[1], c], np.int8, scale=0.01, seed=seed)
        bdt = np.int32 if dtype != np.int16 else np.int64
        bias = self.const(ofm_name + "_b", [ofm_c], bdt, scale=0.0005, seed=seed + 1, lo=-100, hi=100)
        oh, ow = out_hw(h, w, k, stride, padding, dilation)
        ofm = self.tensor(ofm_name, [n, oh, ow, ofm_c], dtype, scale=ofm_scale)
        self.op(BO.CONV_2D, [ifm, wt, bias], [ofm], BOpt.Conv2DOptions,
                [(0, "i8", padding), (1, "i32", stride[1]), (2, "i32", stride[0]), (3, "i8", act),
                 (4, "i32", dilation[1]), (5, "i32", dilation[0])])
        return ofm, [n, oh, ow, ofm_c]

    def binary(self, kind, a, b_, ofm_name, shape, dtype=np.int8, scale=0.1, act=0):
        ofm = self.tensor(ofm_name, shape, dtype, scale=scale)
        code, ot = {"add": (BO.ADD, BOpt.AddOptions), "mul": (BO.MUL, BOpt.MulOptions),
                    "sub": (BO.SUB, BOpt.SubOptions), "max": (BO.MAXIMUM, BOpt.MaximumMinimumOptions),
                    "min": (BO.MINIMUM, BOpt.MaximumMinimumOptions)}[kind]
        self.op(code, [a, b_], [ofm], ot, [(0, "i8", act)] if kind in ("add", "mul", "sub") else [])
        return ofm

    def concat(self, ifms, ofm_name, shape, axis, dtype=np.int8, scale=0.05):
        ofm = self.tensor(ofm_name, shape, dtype, scale=scale)
        self.op(BO.CONCATENATION, ifms, [ofm], BOpt.ConcatenationOptions, [(0, "i32", axis), (1, "i8", 0)])
        return ofm

    def resize_bilinear(self, ifm, ofm_name, ifm_shape, new_hw, align_corners=False, half_pixel=False, dtype=np.int8,
                        scale=0.05):
        n, h, w, c = ifm_shape
        sz = self.tensor(ofm_name + "_size", [2], np.int32, list(new_hw), scale=None)
        ofm = self.tensor(ofm_name, [n, new_hw[0], new_hw[1], c], dtype, scale=scale)
        self.op(BO.RESIZE_BILINEAR, [ifm, sz], [ofm], BOpt.ResizeBilinearOptions,
                [(2, "bool", align_corners), (3, "bool", half_pixel)])
        return ofm, [n, new_hw[0], new_hw[1], c]


def out_hw(h, w, k, stride, padding, dilation):
    kh = (k[0] - 1) * dilation[0] + 1
    kw = (k[1] - 1) * dilation[1] + 1
    if padding == 0:  # SAME
        return -(-h // stride[0]), -(-w // stride[1])
    return (h - kh) // stride[0] + 1, (w - kw) // stride[1] + 1


# ---------------------------------------------------------------------------------------------------------------------
# Compile with the worktree's vela
# ---------------------------------------------------------------------------------------------------------------------
def compile_model(model_bytes, args, name="m", config_text=None, quiet=True):
    """Runs the command line driver on the model, returns (bytes of the output tflite, stdout text)"""
    from ethosu.vela import vela

    base = os.path.join(os.getcwd(), "out", "tmp")  # scratch files stay inside the worktree and are removed again
    os.makedirs(base, exist_ok=True)
    tmp = tempfile.mkdtemp(prefix="c02_", dir=base)
    src = os.path.join(tmp, name + ".tflite")
    with open(src, "wb") as f:
        f.write(model_bytes)
    argv = [src, "--output-dir", os.path.join(tmp, "out")] + list(args)
    if config_text is not None:
        cfg = os.path.join(tmp, "cfg.ini")
        with open(cfg, "w") as f:
            f.write(config_text)
        argv += ["--config", cfg]
    out = io.StringIO()
    # (some of vela's reports are written to the sys.stdout object captured at import time: redirect the descriptor too)
    sys.stdout.flush()
    saved_fd = os.dup(1)
    log = os.path.join(tmp, "stdout.txt")
    fd = os.open(log, os.O_WRONLY | os.O_CREAT | os.O_TRUNC)
    os.dup2(fd, 1)
    try:
        with contextlib.redirect_stdout(out), contextlib.redirect_stderr(out):
            rc = vela.main(argv)
    except SystemExit as e:
        rc = e.code
    finally:
        sys.stdout.flush()
        os.dup2(saved_fd, 1)
        os.close(saved_fd)
        os.close(fd)
    with open(log) as f:
        text = out.getvalue() + f.read()
    if rc not in (0, None):
        shutil.rmtree(tmp, ignore_errors=True)
        raise CompileError(f"vela exited with {rc}:\n{text[-3000:]}")
    with open(os.path.join(tmp, "out", name + "_vela.tflite"), "rb") as f:
        data = f.read()
    shutil.rmtree(tmp, ignore_errors=True)
    return data, text


class CompileError(Exception):
    pass


# ---------------------------------------------------------------------------------------------------------------------
# Reader of the output file + command stream decoder + footprint check
# ---------------------------------------------------------------------------------------------------------------------
def read_output(data):
    """Returns a list of dicts (one per ethos-u custom operator): command stream words and the published sizes"""
    from ethosu.vela.tflite.Model import Model

    model = Model.GetRootAsModel(bytearray(data), 0)
    res = []
    for sgi in range(model.SubgraphsLength()):
        sg = model.Subgraphs(sgi)
        for oi in range(sg.OperatorsLength()):
            op = sg.Operators(oi)
            oc = model.OperatorCodes(op.OpcodeIndex())
            if oc.CustomCode() is None or oc.CustomCode().decode() != "ethos-u":
                continue
            ins = [op.Inputs(i) for i in range(op.InputsLength())]

            def tinfo(ti):
                t = sg.Tensors(ti)
                shape = [t.Shape(i) for i in range(t.ShapeLength())]
                buf = model.Buffers(t.Buffer())
                blen = buf.DataLength()
                return t.Name().decode(), shape, blen, buf

            cs_name, cs_shape, cs_len, cs_buf = tinfo(ins[0])
            fl_name, fl_shape, fl_len, _ = tinfo(ins[1])
            sc_name, sc_shape, _, _ = tinfo(ins[2])
            sf_name, sf_shape, _, _ = tinfo(ins[3])
            payload = bytes(cs_buf.DataAsNumpy().tobytes())
            res.append(
                dict(
                    payload=payload,
                    flash=int(np.prod(fl_shape)),
                    flash_buf=fl_len,
                    scratch=int(np.prod(sc_shape)),
                    scratch_fast=int(np.prod(sf_shape)),
                    names=(cs_name, fl_name, sc_name, sf_name),
                )
            )
    return res


def split_payload(payload):
    words = struct.unpack("<%dI" % (len(payload) // 4), payload)
    assert words[0] == struct.unpack("<I", b"COP1")[0]
    i = 1
    cfg = None
    while i < len(words):
        w = words[i]
        cmd = w & 0xFF
        if cmd == 0x01:  # config
            cfg = words[i + 1]
            i += 3
        elif cmd == 0x05:  # nop
            i += 1
        elif cmd == 0x02:  # command stream
            length = ((w >> 8) & 0xFF) << 16 | (w >> 16)
            return cfg, words[i + 1 : i + 1 + length]
        else:
            raise AssertionError("unknown driver action %x" % cmd)
    raise AssertionError("no command stream")


class Violation(Exception):
    pass


C0 = dict(
    OP_STOP=0x000, OP_CONV=0x002, OP_DEPTHWISE=0x003, OP_POOL=0x005, OP_ELEMENTWISE=0x006, OP_DMA_START=0x010,
    IFM_PAD_TOP=0x100, IFM_PAD_LEFT=0x101, IFM_PAD_RIGHT=0x102, IFM_PAD_BOTTOM=0x103, IFM_DEPTH_M1=0x104,
    IFM_PRECISION=0x105, IFM_UPSCALE=0x107, IFM_WIDTH0_M1=0x10A, IFM_HEIGHT0_M1=0x10B, IFM_HEIGHT1_M1=0x10C,
    IFM_REGION=0x10F, OFM_WIDTH_M1=0x111, OFM_HEIGHT_M1=0x112, OFM_DEPTH_M1=0x113, OFM_PRECISION=0x114,
    OFM_WIDTH0_M1=0x11A, OFM_HEIGHT0_M1=0x11B, OFM_HEIGHT1_M1=0x11C, OFM_REGION=0x11F, KERNEL_WIDTH_M1=0x120,
    KERNEL_HEIGHT_M1=0x121, KERNEL_STRIDE=0x122, PARALLEL_MODE=0x123, ACTIVATION=0x125, WEIGHT_REGION=0x128,
    SCALE_REGION=0x129, DMA0_SRC_REGION=0x130, DMA0_DST_REGION=0x131, IFM2_BROADCAST=0x180, IFM2_PRECISION=0x185,
    IFM2_WIDTH0_M1=0x18A, IFM2_HEIGHT0_M1=0x18B, IFM2_HEIGHT1_M1=0x18C, IFM2_REGION=0x18F,
)
C1 = dict(
    IFM_BASE0=0x000, IFM_BASE1=0x001, IFM_BASE2=0x002, IFM_BASE3=0x003, IFM_STRIDE_X=0x004, IFM_STRIDE_Y=0x005,
    IFM_STRIDE_C=0x006, OFM_BASE0=0x010, OFM_BASE1=0x011, OFM_BASE2=0x012, OFM_BASE3=0x013, OFM_STRIDE_X=0x014,
    OFM_STRIDE_Y=0x015, OFM_STRIDE_C=0x016, WEIGHT_BASE=0x020, WEIGHT_LENGTH=0x021, SCALE_BASE=0x022,
    SCALE_LENGTH=0x023, DMA0_SRC=0x030, DMA0_DST=0x031, DMA0_LEN=0x032, IFM2_BASE0=0x080, IFM2_BASE1=0x081,
    IFM2_BASE2=0x082, IFM2_BASE3=0x083, IFM2_STRIDE_X=0x084, IFM2_STRIDE_Y=0x085, IFM2_STRIDE_C=0x086,
    WEIGHT1_BASE=0x090, WEIGHT1_LENGTH=0x091, SCALE1_BASE=0x092, SCALE1_LENGTH=0x093,
)
C0N = {v: k for k, v in C0.items()}
C1N = {v: k for k, v in C1.items()}


def fm_extent(base, h0, h1, w0, height, width, depth, sy, sx, sc, elem, nhcwb16):
    """Lowest and highest+1 byte address touched by a feature map of height x width x depth with the given tiles"""
    lo, hi = None, 0
    tiles = []
    # (tile index, first row, last row, first col, last col) in fm coordinates
    if width > 0 and height > 0:
        tiles.append((0, 0, min(height, h0) - 1, 0, min(width, w0) - 1))
        if width > w0:
            tiles.append((1, 0, min(height, h1) - 1, w0, width - 1))
        if height > h0:
            tiles.append((2, h0, height - 1, 0, min(width, w0) - 1))
        if width > w0 and height > h1:
            tiles.append((3, h1, height - 1, w0, width - 1))
    used = []
    for t, y0, y1, x0, x1 in tiles:
        oy = h0 if t == 2 else (h1 if t == 3 else 0)
        ox = w0 if t in (1, 3) else 0
        for y in (y0 - oy, y1 - oy):
            for x in (x0 - ox, x1 - ox):
                for c in (0, depth - 1):
                    if nhcwb16:
                        a = base[t] + y * sy + x * 16 * elem + (c // 16) * sc + (c % 16) * elem
                    else:
                        a = base[t] + y * sy + x * sx + c * elem
                    lo = a if lo is None else min(lo, a)
                    hi = max(hi, a + elem)
        used.append(t)
    return lo, hi, used


def check_stream(words, sizes, shram_size, label=""):
    """sizes: dict region -> size in bytes. Raises Violation on the first out-of-range access; returns statistics"""
    r0 = {}
    r1 = {}
    stats = dict(ops=0, dmas=0, max_end={}, acc=[])

    def note(region, lo, hi, what, write):
        if region == 0x103:  # DMA region mode "internal": the address is an offset in SHRAM
            limit = shram_size
        else:
            if region not in sizes:
                raise Violation(f"{label}{what}: names region {region}, which the output file does not declare")
            limit = sizes[region]
        stats["max_end"][region] = max(stats["max_end"].get(region, 0), hi)
        stats["acc"].append((what, region, lo, hi, write))
        if lo < 0 or hi > limit:
            raise Violation(
                f"{label}{what}: {'writes' if write else 'reads'} bytes [{lo}, {hi}) of region {region} "
                f"whose published size is {limit} bytes"
            )
        if write and region == 0:
            raise Violation(f"{label}{what}: writes to the read-only constants region")

    def fm(prefix, height, width, depth, what, write):
        prec = r0[prefix + "_PRECISION"]
        if prefix == "OFM":
            elem = 1 << ((prec >> 1) & 3)
        else:
            elem = 1 << ((prec >> 2) & 3)
        nhcwb16 = bool((prec >> 6) & 1)
        base = [r1[f"{prefix}_BASE{i}"] for i in range(4)]
        h0 = r0[prefix + "_HEIGHT0_M1"] + 1
        h1 = r0[prefix + "_HEIGHT1_M1"] + 1
        w0 = r0[prefix + "_WIDTH0_M1"] + 1
        lo, hi, used = fm_extent(
            base, h0, h1, w0, height, width, depth, r1[prefix + "_STRIDE_Y"], r1[prefix + "_STRIDE_X"],
            r1[prefix + "_STRIDE_C"], elem, nhcwb16,
        )
        note(r0[prefix + "_REGION"], lo, hi, f"{what} {prefix} {height}x{width}x{depth}", write)

    i = 0
    n = len(words)
    opi = 0
    while i < n:
        w = words[i]
        code = w & 0x3FF
        param = w >> 16
        if w & 0x4000:
            payload = words[i + 1]
            i += 2
            name = C1N.get(code)
            if name is not None:
                if name.endswith("LENGTH") or name == "DMA0_LEN":
                    r1[name] = payload
                else:
                    r1[name] = payload | (param << 32)
            continue
        i += 1
        name = C0N.get(code)
        if name is None:
            continue
        if not name.startswith("OP_"):
            r0[name] = param
            continue
        if name == "OP_STOP":
            break
        if name == "OP_DMA_START":
            stats["dmas"] += 1
            ln = r1["DMA0_LEN"]
            what = f"op#{opi} DMA"
            note(r0["DMA0_SRC_REGION"], r1["DMA0_SRC"], r1["DMA0_SRC"] + ln, what + " source", False)
            note(r0["DMA0_DST_REGION"], r1["DMA0_DST"], r1["DMA0_DST"] + ln, what + " destination", True)
            opi += 1
            continue
        # NPU block operation
        stats["ops"] += 1
        what = f"op#{opi} {name[3:]}"
        ofm_h = r0["OFM_HEIGHT_M1"] + 1
        ofm_w = r0["OFM_WIDTH_M1"] + 1
        ofm_d = r0["OFM_DEPTH_M1"] + 1
        fm("OFM", ofm_h, ofm_w, ofm_d, what, True)
        if name == "OP_ELEMENTWISE":
            fm("IFM", ofm_h, ofm_w, r0["IFM_DEPTH_M1"] + 1, what, False)
            mode = param
            if mode not in (5, 6, 7):  # binary
                bc = r0.get("IFM2_BROADCAST", 0)
                if not (bc & 0x80):
                    h2 = 1 if bc & 1 else ofm_h
                    w2 = 1 if bc & 2 else ofm_w
                    d2 = 1 if bc & 4 else ofm_d
                    fm("IFM2", h2, w2, d2, what, False)
        else:
            ks = r0["KERNEL_STRIDE"]
            sx = 1 + (ks & 1) + (((ks >> 6) & 7) << 1)
            sy = 1 + ((ks >> 1) & 1) + (((ks >> 9) & 7) << 1)
            kw = r0["KERNEL_WIDTH_M1"] + 1
            kh = r0["KERNEL_HEIGHT_M1"] + 1
            need_h = (ofm_h - 1) * sy + kh - r0["IFM_PAD_TOP"] - r0["IFM_PAD_BOTTOM"]
            need_w = (ofm_w - 1) * sx + kw - r0["IFM_PAD_LEFT"] - r0["IFM_PAD_RIGHT"]
            if r0.get("IFM_UPSCALE", 0) != 0:
                need_h = -(-need_h // 2)
                need_w = -(-need_w // 2)
            fm("IFM", max(need_h, 1), max(need_w, 1), r0["IFM_DEPTH_M1"] + 1, what, False)
            if name in ("OP_CONV", "OP_DEPTHWISE"):
                ncores = r0.get("PARALLEL_MODE", 0) + 1
                for core, (b_, l_) in enumerate((("WEIGHT_BASE", "WEIGHT_LENGTH"), ("WEIGHT1_BASE", "WEIGHT1_LENGTH"))):
                    if core < ncores and r1.get(l_, 0) > 0:
                        note(r0["WEIGHT_REGION"], r1[b_], r1[b_] + r1[l_], f"{what} weights core {core}", False)
                for core, (b_, l_) in enumerate((("SCALE_BASE", "SCALE_LENGTH"), ("SCALE1_BASE", "SCALE1_LENGTH"))):
                    if core < ncores and r1.get(l_, 0) > 0:
                        note(r0["SCALE_REGION"], r1[b_], r1[b_] + r1[l_], f"{what} scales core {core}", False)
        act = r0.get("ACTIVATION", 0)
        if (act & 0x1F) >= 16:
            # table lookup: 256 bytes (8 bit) or 512 x 4 bytes (16 bit) in the last SHRAM banks; nothing to bound here
            pass
        opi += 1
    return stats


SHRAM = {0: 24 * 1024, 1: 24 * 1024, 2: 24 * 1024, 3: 48 * 1024}


def check_output(data, arena_cache_size=None, spilling=False, label=""):
    """Checks all custom operators of a compiled model; returns a list of statistics"""
    res = []
    for k, item in enumerate(read_output(data)):
        cfg, words = split_payload(item["payload"])
        shram_kb = (cfg >> 8) & 0xFF  # config word: shram size in KiB (per core x cores)
        if (cfg & 0xF) == 9:
            shram_kb //= 2  # two cores, each with its own SHRAM
        sizes = {0: item["flash"], 1: item["scratch"], 2: item["scratch_fast"]}
        if item["flash_buf"] != item["flash"]:
            raise Violation(f"{label}constants tensor declares {item['flash']} bytes, buffer has {item['flash_buf']}")
        if spilling and arena_cache_size is not None and item["scratch_fast"] > arena_cache_size:
            raise Violation(
                f"{label}published fast scratch size {item['scratch_fast']} exceeds the arena cache size"
                f" {arena_cache_size}"
            )
        st = check_stream(words, sizes, shram_kb * 1024 if shram_kb else 48 * 1024, label=label)
        st["sizes"] = sizes
        res.append(st)
    return res


# ---------------------------------------------------------------------------------------------------------------------
# The demonstration
# ---------------------------------------------------------------------------------------------------------------------

def model(sa, sb):
    from ethosu.vela.tflite.BuiltinOperator import BuiltinOperator as BO
    from ethosu.vela.tflite.BuiltinOptions import BuiltinOptions as BOpt
    t = TFL()
    a = t.tensor("a", sa)
    b = t.tensor("b", sb)
    y = t.tensor("o", sb, scale=0.2)
    t.op(BO.SQUARED_DIFFERENCE, [a, b], [y], BOpt.SquaredDifferenceOptions, [])
    return t.build([a, b], [y])


def cases():
    yield "squared_difference([1,1,1,16], [1,200,200,16]) ethos-u55-128", model([1, 1, 1, 16], [1, 200, 200, 16]), [
        "--accelerator-config", "ethos-u55-128"]
    yield "squared_difference([16], [1,120,120,16]) ethos-u65-256", model([16], [1, 120, 120, 16]), [
        "--accelerator-config", "ethos-u65-256"]
    # control: the same operator with the operands the other way round is compiled correctly
    yield "control squared_difference([1,200,200,16], [1,1,1,16]) ethos-u55-128", model([1, 200, 200, 16], [1, 1, 1, 16]), [
        "--accelerator-config", "ethos-u55-128"]


def main():
    failures = []
    checked = 0
    for label, model_bytes, args in cases():
        try:
            data, _ = compile_model(model_bytes, args)
            stats = check_output(data, label=label + ": ")
        except Violation as v:
            failures.append(str(v))
            continue
        if not stats or sum(s["ops"] for s in stats) == 0:
            failures.append(label + ": nothing was placed on the NPU (demonstration is void)")
            continue
        checked += sum(s["ops"] + s["dmas"] for s in stats)
    if failures:
        print("FAIL")
        for f in failures:
            print("  " + f)
        return 1
    print(f"PASS ({checked} NPU operations / DMA transfers checked, all inside their regions)")
    return 0


if __name__ == "__main__":
    sys.exit(main())

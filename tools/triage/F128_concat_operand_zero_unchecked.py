# Observation 1 (unmodified tree): the generic constraints are not applied to all inputs of a CONCATENATION.
#
# The generic checks (data type, dimension range, batch size, per-axis quantisation, "must have quantization parameters")
# look at op.ifm / op.ifm2 / op.weights / op.ofm. For Op.ConcatTFLite the tensor indices are NNG_CONCAT_INDICES = ([1, 2], [],
# []) (the layout of the TensorFlow Concat operator, whose operand 0 is the axis), so op.ifm is operand 1 and op.ifm2 is
# operand 2: operand 0 and operands 3.. are never looked at, and a CONCATENATION with a single input has no checked
# input at all. The report lists "IFM Tensor batch size must be 1" without an exception for CONCATENATION.
from _obs_common import *  # noqa: F401,F403
import c16zoo as zoo

rule = "IFM Tensor batch size must be 1"
assert rule in report_section(generated_report(), "Generic")
expect("axis 0, inputs [3,4,4,8] + [1,4,4,8]", zoo.concat(((3, 4, 4, 8), (1, 4, 4, 8)), axis=0), "cpu", rule)
expect("axis 0, inputs [1,4,4,8] + [3,4,4,8] (same, other order)", zoo.concat(((1, 4, 4, 8), (3, 4, 4, 8)), axis=0), "cpu", rule)
expect("axis 0, fourth input [3,4,4,8]", zoo.concat(((1, 4, 4, 8),) * 3 + ((3, 4, 4, 8),), axis=0), "cpu", rule)
expect("one input of batch 2", zoo.concat(((2, 4, 4, 8),), axis=3), "cpu", rule)

# operand 0 without quantisation parameters / of type float32
for dtype, quant_rule in ((DataType.int8, "Input(s), Output and Weight tensors must have quantization parameters"),
                          (DataType.float32, "Tensors must be of type: int16, int32, int8, uint8")):
    for pos in (0, 1):
        a = fm("a", (1, 4, 4, 8), dtype, quant=False)
        b = fm("b", (1, 4, 4, 8), DataType.int8, 0.5, 0)
        o = fm("o", (1, 4, 4, 16), DataType.int8, 0.5, 0)
        ins = [a, b] if pos == 0 else [b, a]
        model = build_model([mkop(Op.ConcatTFLite, "cat", ins, o, {"axis": 3})], ins, [o])
        expect(f"unquantised {dtype} tensor is input {pos}", model, "cpu", quant_rule)
finish()

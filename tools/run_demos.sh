#!/bin/bash
# usage: run_demos.sh <worktree> <outfile> [jobs]  -- runs every seeded demonstration against <worktree> (expected: exit 0 on a tree without the seed).
# Every seed gets a private root <worktree>/runs/<id>/ (ethosu and the build files symlinked, its demo and helper modules in out/), so helper
# modules of the same name from different rounds do not meet.
WT=$1; OUT=$2; J=${3:-8}; : > $OUT
run_one() {
  d=$1; WT=$2
  id=$(basename $d)
  R=$WT/runs/$id
  rm -rf $R; mkdir -p $R/out
  for f in ethosu setup.py pyproject.toml README.md OPTIONS.md SUPPORTED_OPS.md; do [ -e $WT/$f ] && ln -s $WT/$f $R/$f; done
  demo=$(ls $d/demo* | head -1)
  ext="${demo##*.}"
  cp $demo $R/out/demo_$id.$ext
  for f in $d/*.py $d/*.c $d/*.h; do [ -f "$f" ] && [ "$f" != "$demo" ] && cp $f $R/out/; done
  if [ "$ext" = "py" ]; then (cd $R && timeout 900 /venv/bin/python out/demo_$id.py >/tmp/demo_$id.log 2>&1); rc=$?; else (cd $R && timeout 900 bash out/demo_$id.$ext >/tmp/demo_$id.log 2>&1); rc=$?; fi
  echo "$id rc=$rc"
  [ $rc -eq 0 ] && rm -f /tmp/demo_$id.log
  rm -rf $R
}
export -f run_one
ls -d /verif/seeded/C*-* | xargs -P $J -I{} bash -c "run_one {} $WT" >> $OUT
rmdir $WT/runs 2>/dev/null
echo done >> $OUT

#!/usr/bin/env python3
"""Runs every claimed check against every seeded change (scratch copies, 16 workers) and records which checks
fire in seeded/<id>/meta.json ("caught_by") and in seeded/MATRIX.md."""
import json, os, sys, glob
from concurrent.futures import ThreadPoolExecutor
sys.path.insert(0, "/verif")
from velacheck.patchtest import run_patch

man = json.load(open("/verif/MANIFEST.json"))
props = [c["property_id"] for c in man["checks"]]
seeds = sorted(d for d in glob.glob("/verif/seeded/C*-*") if os.path.isdir(d))
# MATRIX_ONLY=stale re-runs only the seeds whose recorded row is missing, has an analysis error or does not list the own property
old_rows = {}
if os.path.exists("/verif/seeded/MATRIX.md"):
    for ln in open("/verif/seeded/MATRIX.md"):
        c = [x.strip() for x in ln.strip().strip("|").split("|")]
        if len(c) == 4 and c[0].startswith("C") and "-" in c[0]:
            old_rows[c[0]] = (c[0], c[2], c[3])
if os.environ.get("MATRIX_ONLY") == "stale":
    def stale(d):
        sid = os.path.basename(d)
        r = old_rows.get(sid)
        return r is None or r[2] or sid.split("-")[0] not in r[1]
    seeds = [d for d in seeds if stale(d)]
    print("re-running", len(seeds), "rows")

def one(d):
    own = os.path.basename(d).split("-")[0]
    res = run_patch(os.path.join(d, "patch.diff"), props)
    if "_error" in res:
        return d, None, res["_error"]
    fired = [p for p, v in res.items() if v[0] == 1]
    errs = [p for p, v in res.items() if v[0] == 2]
    detail = {p: v[1][:1] for p, v in res.items() if v[0] == 1}
    return d, (fired, errs, detail), None

rows = []
with ThreadPoolExecutor(max_workers=int(os.environ.get("MATRIX_WORKERS", "14"))) as ex:
    for d, r, err in ex.map(one, seeds):
        sid = os.path.basename(d)
        meta = json.load(open(os.path.join(d, "meta.json")))
        if r is None:
            meta["caught_by"] = None
            meta["check_run_error"] = err
            rows.append((sid, "PATCH DOES NOT APPLY (tree has moved)", ""))
        else:
            fired, errs, detail = r
            meta["caught_by"] = fired
            meta["analysis_error_in"] = errs
            meta["first_report"] = {p: (v[0][:300] if v else "") for p, v in detail.items()}
            rows.append((sid, ", ".join(fired) if fired else "MISSED", ", ".join(errs)))
        json.dump(meta, open(os.path.join(d, "meta.json"), "w"), indent=1)
merged = dict(old_rows) if os.environ.get("MATRIX_ONLY") == "stale" else {}
for r_ in rows:
    merged[r_[0]] = r_
live = {os.path.basename(d) for d in glob.glob("/verif/seeded/C*-*") if os.path.isdir(d)}
rows = [merged[k] for k in sorted(merged) if k in live]
with open("/verif/seeded/MATRIX.md", "w") as f:
    f.write("| seeded change | property it breaks | caught by (exit 1) | exit 2 in |\n|---|---|---|---|\n")
    for sid, fired, errs in rows:
        f.write(f"| {sid} | {sid.split('-')[0]} | {fired} | {errs} |\n")
print(len(rows), "rows written")

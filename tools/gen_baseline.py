#!/usr/bin/env python3
"""Regenerates velacheck/baseline_names.json (shape digest + spelling of the locals of every outermost function of
/repo's ethosu/vela modules). Run after every deliberate change of /repo (fix: commits); the checks stay correct with a
stale baseline (a function whose shape differs is simply not re-spelled)."""
import ast
import json
import os
import sys

sys.path.insert(0, "/verif")
from velacheck import core  # noqa: E402

root = sys.argv[1] if len(sys.argv) > 1 else "/repo"
base = os.path.join(root, core.PKG)
out = {}
for dirpath, dirnames, filenames in os.walk(base):
    dirnames[:] = [d for d in dirnames if d not in ("test", "__pycache__")]
    for fn in sorted(filenames):
        if fn.endswith(".py"):
            p = os.path.join(dirpath, fn)
            rel = os.path.relpath(p, base)[:-3].replace(os.sep, ".")
            if "." in rel:
                continue  # generated schema packages: no rules look inside their functions
            tree = ast.parse(open(p).read())
            core._augment(tree)
            d = {}
            for q, f in core.outer_functions(tree):
                digest, names, _, flags, _c = core.function_shape(f)
                d[q] = {"shape": digest, "names": names, "flags": flags}
            out[rel] = d
json.dump(out, open(core.BASELINE_NAMES, "w"), indent=0, sort_keys=True)
print(sum(len(v) for v in out.values()), "functions in", len(out), "modules")

#!/usr/bin/env python3
"""Confirms sub-agent seeded changes and files them under /verif/seeded/.

usage: collect_seeds.py Cnn [Cnn ...]
For every /tmp/seed/<Cnn>/out/patch<k>.diff: in a scratch worktree of /repo
(outside /repo and /verif, removed afterwards) apply the patch, run the pinned
test suite (must be 539 passed / 4 failed as on the pristine tree), run the
demonstration (must exit non-zero), revert, run the demonstration again (must
exit 0). Confirmed changes are copied to /verif/seeded/<Cnn>-<k>/ with
meta.json recording what was run. Which checks catch the change is recorded
separately by tools/seed_matrix.py."""
import glob
import json
import os
import re
import shutil
import subprocess
import sys

WT = "/tmp/seedverify"
PY = "/venv/bin/python"


def sh(cmd, cwd=None, timeout=1800):
    r = subprocess.run(cmd, shell=True, cwd=cwd, capture_output=True, text=True, timeout=timeout)
    return r.returncode, r.stdout + r.stderr


def suite(cwd):
    rc, out = sh(f"{PY} -m pytest -q -p no:cacheprovider -n 8 2>&1 | tail -3", cwd)
    m = re.search(r"(\d+) failed, (\d+) passed", out)
    return (int(m.group(2)), int(m.group(1))) if m else (None, out[-300:])


def main():
    props = sys.argv[1:]
    if os.path.isdir(WT):
        sh(f"git -C /repo worktree remove --force {WT}")
    sh(f"git -C /repo worktree add --detach {WT} HEAD")
    sh(f"cp /repo/ethosu/mlw_codec*.so {WT}/ethosu/")
    try:
        for pid in props:
            src = f"{os.environ.get('SEED_ROOT', '/tmp/seed')}/{pid}/out"
            for patch in sorted(glob.glob(f"{src}/patch*.diff")):
                k = re.search(r"patch(\d+)\.diff", patch).group(1)
                demo = f"{src}/demo{k}.py"
                meta = f"{src}/meta{k}.json"
                dest = f"/verif/seeded/{pid}-{os.environ.get('SEED_TAG', '')}{k}"
                if os.path.isdir(dest):
                    print(pid, k, "already filed")
                    continue
                if not os.path.exists(demo):
                    print(pid, k, "no demo")
                    continue
                sh("git checkout -- . && git clean -fdq -e ethosu/*.so", WT)
                os.makedirs(f"{WT}/out", exist_ok=True)
                for f in glob.glob(f"{src}/*"):
                    if os.path.isfile(f):
                        shutil.copy(f, f"{WT}/out/")
                touches_c = ".c" in open(patch).read().split("+++")[1].split("\n")[0] if "+++" in open(patch).read() else False
                rc0, out0 = sh(f"{PY} out/demo{k}.py", WT, 900)
                rc, out = sh(f"git apply out/patch{k}.diff", WT)
                if rc != 0:
                    print(pid, k, "patch does not apply:", out[-200:])
                    continue
                if any(l.startswith("+++ ") and l.strip().endswith((".c", ".h")) for l in open(patch)):
                    sh(f"{PY} setup.py build_ext --inplace -q", WT)
                passed, failed = suite(WT)
                rc1, out1 = sh(f"{PY} out/demo{k}.py", WT, 900)
                sh("git checkout -- .", WT)
                if any(l.startswith("+++ ") and l.strip().endswith((".c", ".h")) for l in open(patch)):
                    sh(f"cp /repo/ethosu/mlw_codec*.so {WT}/ethosu/")
                ok = rc0 == 0 and rc1 != 0 and passed == 539 and failed == 4
                print(pid, k, "pristine demo rc", rc0, "| patched demo rc", rc1, "| suite", passed, failed, "=>", "CONFIRMED" if ok else "REJECTED")
                if not ok:
                    print("   pristine:", out0[-200:].replace("\n", " | "))
                    print("   patched:", out1[-200:].replace("\n", " | "))
                    continue
                os.makedirs(dest, exist_ok=True)
                shutil.copy(patch, f"{dest}/patch.diff")
                shutil.copy(demo, f"{dest}/demo.py")
                # helper modules / harnesses that the demonstration imports (everything that is not a demo, observation or fuzzer)
                for f in glob.glob(f"{src}/*"):
                    b = os.path.basename(f)
                    if os.path.isfile(f) and b.endswith((".py", ".c", ".h")) and not re.match(r"(demo\d|observation|obs_|fuzz|sweep)", b):
                        shutil.copy(f, f"{dest}/{b}")
                m = json.load(open(meta)) if os.path.exists(meta) else {}
                m["property"] = pid
                m["confirmed_by"] = {
                    "worktree": "scratch git worktree of /repo HEAD (removed afterwards)",
                    "suite_cmd": f"{PY} -m pytest -q -p no:cacheprovider -n 8",
                    "suite_with_change": f"{passed} passed, {failed} failed (same as pristine: 539 / 4 known failures)",
                    "demo_cmd": f"cd <worktree> && {PY} out/demo{k}.py (demo.py here; expects to live in <worktree>/out/)",
                    "demo_with_change_exit": rc1,
                    "demo_pristine_exit": rc0,
                    "demo_with_change_tail": out1[-400:],
                }
                json.dump(m, open(f"{dest}/meta.json", "w"), indent=1)
    finally:
        sh(f"git -C /repo worktree remove --force {WT}")


if __name__ == "__main__":
    main()

#!/bin/bash
# usage: seed_try.sh ROOT Cnn [Cnn...]  -- for each candidate patch print which of the property's own check fires
root=$1; shift
for p in "$@"; do
  for f in $root/$p/out/patch*.diff; do
    ( r=$(cd /verif && python3 -m velacheck.patchtest $f $p | tail -1); echo "$p $(basename $f) own: $r" ) &
  done
done
wait

#!/bin/bash
# usage: seed_own.sh <glob suffix, e.g. s>  -- own-property verdict for every filed seed Cnn-<suffix>k
suf=$1
for d in /verif/seeded/C*-${suf}[0-9]*; do
  p=$(basename $d | cut -d- -f1)
  ( r=$(cd /verif && timeout 600 python3 -m velacheck.patchtest $d/patch.diff $p | tail -1); echo "$(basename $d) own: $r" ) &
  while [ $(jobs -r | wc -l) -ge 12 ]; do sleep 0.2; done
done
wait

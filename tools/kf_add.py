#!/usr/bin/env python3
"""kf_add.py <replay.json> <finding id> <what fails>  -- development helper: files a triaged violation into known_findings.json"""
import json, sys
r = json.load(open(sys.argv[1]))
kf = json.load(open('/verif/known_findings.json'))
e = {"id": sys.argv[2], "property": r["property"], "rule": r["rule"], "site": r["site"], "construct": r["construct"], "what": sys.argv[3]}
kf["findings"] = [k for k in kf["findings"] if not (k["property"] == e["property"] and k["rule"] == e["rule"] and k["site"] == e["site"] and k["construct"] == e["construct"])]
kf["findings"].append(e)
json.dump(kf, open('/verif/known_findings.json', 'w'), indent=1)
print("filed", e["id"], e["construct"][:80])

#!/bin/bash
# usage: runall_on.sh <tree>  -- every claimed check (quick tier) against another tree (candidate repairs), without writing evidence
cd /verif
tree=$1
rc=0
for p in $(python3 -c "import json;print(' '.join(c['property_id'] for c in json.load(open('MANIFEST.json'))['checks']))"); do
  ( out=$(VELACHECK_NO_EVIDENCE=1 python3 -m velacheck $p --repo $tree 2>&1); r=$?; [ $r -ne 0 ] && { echo "$p exit=$r"; echo "$out" | grep -v KNOWN-FINDING | tail -4; } ) &
done
wait

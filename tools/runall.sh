#!/bin/bash
# runs every claimed check (quick tier by default) and prints one line each; exit 1 if any is not clean
cd /verif
tier=${1:-quick}
rc=0
for p in $(python3 -c "import json;print(' '.join(c['property_id'] for c in json.load(open('MANIFEST.json'))['checks']))"); do
  out=$(python3 -m velacheck $p --tier $tier 2>&1); r=$?
  echo "$p exit=$r $(echo "$out" | head -1)"
  [ $r -ne 0 ] && { rc=1; echo "$out" | grep -v KNOWN-FINDING | tail -5; }
done
exit $rc

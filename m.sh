#!/bin/bash
# dev helper: ./m.sh PROP relpath old new  -> one-line verdict of the check on the mutated scratch copy
out=$(python3 -m velacheck.mutate "$@")
rc=$(echo "$out" | tail -1)
echo "[$rc] $4 :: $(echo "$out" | grep -m2 '^  rule\|ANALYSIS-ERROR\|MUTATE-ERROR\|Traceback' | cut -c1-260 | tr '\n' ' ')"
